package gldap

import (
	"fmt"
	"testing"
	"time"

	"github.com/go-ldap/ldap/v3"
)

// C07 known finding: a panicking search handler (recovery enabled, the default)
// takes the whole process down because the per-request goroutine has no recover.
func TestC07HandlerPanic(t *testing.T) {
	s, err := NewServer()
	if err != nil {
		t.Fatal(err)
	}
	mux, _ := NewMux()
	_ = mux.Search(func(w *ResponseWriter, r *Request) { panic("boom in handler") })
	_ = mux.Bind(func(w *ResponseWriter, r *Request) {
		_ = w.Write(r.NewBindResponse(WithResponseCode(ResultSuccess)))
	})
	_ = s.Router(mux)
	port := freePort(t)
	go func() { _ = s.Run(fmt.Sprintf("127.0.0.1:%d", port)) }()
	for !s.Ready() {
		time.Sleep(time.Millisecond)
	}
	c, err := ldap.DialURL(fmt.Sprintf("ldap://127.0.0.1:%d", port))
	if err != nil {
		t.Fatal(err)
	}
	c.SetTimeout(2 * time.Second)
	_, _ = c.Search(ldap.NewSearchRequest("dc=x", ldap.ScopeWholeSubtree, 0, 0, 0, false, "(cn=a)", nil, nil))
	time.Sleep(300 * time.Millisecond)
	t.Log("process survived the handler panic")
}
