package testdirectory_test

// Reproduction of the known finding C20 "a Replace modification is not
// reflected in later searches" (run with: go test -overlay, see the .txt file).

import (
	"fmt"
	"testing"

	"github.com/go-ldap/ldap/v3"
	"github.com/jimlambrt/gldap"
	"github.com/jimlambrt/gldap/testdirectory"
)

func TestGovcKnownC20Replace(t *testing.T) {
	td := testdirectory.Start(t, testdirectory.WithDefaults(t, &testdirectory.Defaults{AllowAnonymousBind: true}))
	u := gldap.NewEntry("cn=bob,ou=people,dc=example,dc=org", map[string][]string{"email": {"old@example.com"}, "password": {"pw"}})
	td.SetUsers(u)
	c := td.Conn()
	defer c.Close()
	if err := c.Modify(&ldap.ModifyRequest{DN: u.DN, Changes: []ldap.Change{{Operation: ldap.ReplaceAttribute, Modification: ldap.PartialAttribute{Type: "email", Vals: []string{"new@example.com"}}}}}); err != nil {
		t.Fatal(err)
	}
	res, err := c.Search(&ldap.SearchRequest{BaseDN: u.DN, Filter: fmt.Sprintf("(%s)", u.DN)})
	if err != nil {
		t.Fatal(err)
	}
	got := res.Entries[0].GetAttributeValues("email")
	fmt.Printf("GOVC-KNOWN: email after successful replace = %q\n", got)
	if len(got) == 1 && got[0] == "old@example.com" {
		fmt.Println("GOVC-KNOWN: REPRODUCED (the modify returned success and the old value is still served)")
	}
}
