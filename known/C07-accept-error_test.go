package gldap

import (
	"fmt"
	"net"
	"os"
	"syscall"
	"testing"
	"time"

	"github.com/go-ldap/ldap/v3"
)

// C07: descriptor exhaustion at accept time must not take the server down.
// The test uses up every file descriptor of the process, lets one client connect
// (so that the pending Accept fails with EMFILE), releases the descriptors again
// and then expects Run to be still running and a new client to be served.
func TestC07AcceptError(t *testing.T) {
	s, err := NewServer()
	if err != nil {
		t.Fatal(err)
	}
	mux, _ := NewMux()
	_ = mux.Bind(func(w *ResponseWriter, r *Request) {
		_ = w.Write(r.NewBindResponse(WithResponseCode(ResultSuccess)))
	})
	_ = s.Router(mux)
	l, err := net.Listen("tcp", "127.0.0.1:0")
	if err != nil {
		t.Fatal(err)
	}
	port := l.Addr().(*net.TCPAddr).Port
	_ = l.Close()
	runErr := make(chan error, 1)
	go func() { runErr <- s.Run(fmt.Sprintf("127.0.0.1:%d", port)) }()
	for !s.Ready() {
		time.Sleep(time.Millisecond)
	}
	defer func() { _ = s.Stop() }()

	var old syscall.Rlimit
	if err := syscall.Getrlimit(syscall.RLIMIT_NOFILE, &old); err != nil {
		t.Fatal(err)
	}
	lim := old
	lim.Cur = 64
	if err := syscall.Setrlimit(syscall.RLIMIT_NOFILE, &lim); err != nil {
		t.Fatal(err)
	}
	var hogs []*os.File
	for {
		f, err := os.Open("/dev/null")
		if err != nil {
			break // EMFILE: every descriptor is in use
		}
		hogs = append(hogs, f)
	}
	if len(hogs) == 0 {
		t.Fatal("could not exhaust descriptors")
	}
	// free exactly one descriptor for the client's own socket
	_ = hogs[len(hogs)-1].Close()
	hogs = hogs[:len(hogs)-1]
	c1, err := net.DialTimeout("tcp", fmt.Sprintf("127.0.0.1:%d", port), 2*time.Second)
	if err != nil {
		t.Fatalf("client dial: %v", err)
	}
	// the server's Accept now fails with EMFILE (too many open files)
	time.Sleep(300 * time.Millisecond)
	for _, f := range hogs {
		_ = f.Close()
	}
	_ = c1.Close()
	_ = syscall.Setrlimit(syscall.RLIMIT_NOFILE, &old)

	select {
	case err := <-runErr:
		t.Fatalf("Run returned after a transient accept error: %v", err)
	case <-time.After(200 * time.Millisecond):
	}
	// descriptors are available again: a new client must be served (allow for the accept back-off)
	c, err := ldap.DialURL(fmt.Sprintf("ldap://127.0.0.1:%d", port))
	if err != nil {
		t.Fatalf("dial after recovery: %v", err)
	}
	defer c.Close()
	c.SetTimeout(3 * time.Second)
	if err := c.Bind("cn=a", "pw"); err != nil {
		t.Fatalf("bind after recovery: %v", err)
	}
}
