//go:build verif

package gldap

// Reproduction (forced schedule, needs -tags verif for the yield hook) of the
// C12 known finding "Stop can return while an accepted connection has not been
// registered yet": the accept loop is paused between Accept and connWg.Add; Stop
// runs to completion meanwhile (its Wait sees a zero counter); the accept loop
// then resumes and starts serving the connection after Stop has returned.

import (
	"fmt"
	"net"
	"sync/atomic"
	"testing"
	"time"
)

func TestGovcKnownC12LateAccept(t *testing.T) {
	var closedAfterStop atomic.Int32
	var stopReturned atomic.Bool
	s, err := NewServer(WithOnClose(func(int) {
		if stopReturned.Load() {
			closedAfterStop.Add(1)
		}
	}))
	if err != nil {
		t.Fatal(err)
	}
	mux, _ := NewMux()
	_ = s.Router(mux)
	l, err := net.Listen("tcp", "127.0.0.1:0")
	if err != nil {
		t.Fatal(err)
	}
	addr := l.Addr().String()
	l.Close()
	paused := make(chan struct{})
	resume := make(chan struct{})
	var once atomic.Bool
	verifYieldFn = func(site string) {
		if site == "run.accepted" && once.CompareAndSwap(false, true) {
			close(paused)
			<-resume
		}
	}
	defer func() { verifYieldFn = nil }()
	done := make(chan error, 1)
	go func() { done <- s.Run(addr) }()
	for !s.Ready() {
		time.Sleep(time.Millisecond)
	}
	c, err := net.Dial("tcp", addr)
	if err != nil {
		t.Fatal(err)
	}
	defer c.Close()
	<-paused // the connection is accepted, not yet counted in connWg
	if err := s.Stop(); err != nil {
		t.Fatal(err)
	}
	stopReturned.Store(true)
	close(resume) // the accept loop goes on: newConn, connWg.Add(1), go serve
	<-done
	time.Sleep(300 * time.Millisecond)
	fmt.Printf("GOVC-KNOWN: connections closed (OnClose) after Stop had returned: %d\n", closedAfterStop.Load())
	if closedAfterStop.Load() > 0 {
		fmt.Println("GOVC-KNOWN: REPRODUCED (Stop returned while a connection was still to be served and closed)")
	}
}
