package testdirectory_test

// Reproduction of the (repaired) C15 defect: handlers and getters of the test
// directory read users/controls/... without d.mu while Set* writes them under
// d.mu. Run with -race on the tree before the fix commit.

import (
	"sync"
	"testing"

	"github.com/jimlambrt/gldap"
	"github.com/jimlambrt/gldap/testdirectory"
)

func TestGovcKnownC15DirectoryRace(t *testing.T) {
	td := testdirectory.Start(t, testdirectory.WithDefaults(t, &testdirectory.Defaults{AllowAnonymousBind: true}))
	u := gldap.NewEntry("cn=bob,ou=people,dc=example,dc=org", map[string][]string{"password": {"pw"}})
	td.SetUsers(u)
	var wg sync.WaitGroup
	wg.Add(2)
	stop := make(chan struct{})
	go func() {
		defer wg.Done()
		for i := 0; ; i++ {
			select {
			case <-stop:
				return
			default:
			}
			td.SetUsers(u)
			td.SetAllowAnonymousBind(i%2 == 0)
			_ = td.Users()
		}
	}()
	go func() {
		defer wg.Done()
		c := td.Conn()
		defer c.Close()
		for i := 0; i < 50; i++ {
			_ = c.Bind(u.DN, "pw")
		}
		close(stop)
	}()
	wg.Wait()
}
