package main

import (
	"fmt"
	"go/types"

	"golang.org/x/tools/go/ssa"
)

// ---- symbolic values ----------------------------------------------------------

type Val interface{}

type StructVal struct {
	T types.Type // struct type (possibly named)
	F []Val
}
type ArrayVal struct {
	T types.Type
	E []Val
}
type TupleVal []Val

type LocalCell struct {
	v    Val
	T    types.Type
	name string
}

// pointer into a non-escaping local variable
type LocalAddr struct {
	cell *LocalCell
	path []int
}

// pointer to a scalar field of a heap struct object
type HeapAddr struct {
	heap string
	sort Sort
	idx  *Term
}

type Closure struct {
	fn       *ssa.Function
	bindings []Val
}

type Deferred struct {
	fn     *ssa.Function // static callee or closure fn; nil for other kinds
	clo    Val           // function value (when fn == nil or closure)
	args   []Val
	common *ssa.CallCommon
	site   ssa.Instruction
}

type Frame struct {
	fn      *ssa.Function
	env     map[ssa.Value]Val
	locals  map[*ssa.Alloc]*LocalCell
	blk     *ssa.BasicBlock
	prev    *ssa.BasicBlock
	pc      int
	defers  []*Deferred
	onRet   func(st *State, res Val) // continuation in the caller (nil for top)
	isDefer bool                     // frame runs a deferred call
	unwind  bool                     // frame is unwinding a panic
	visits  map[int]int              // loop header block index -> visits on this path (unrolling)
	inCut   map[int]bool             // loop headers already cut on this path
	heads   map[int]*Snapshot        // state at the head of a cut loop with explicit modifies (frame checks)
	depth   int
	// contract context (top frame only)
	entry *Snapshot
}

type restrictEntry struct {
	heap      string
	sort      Sort
	root      *Term // backing array (at loop entry) that may be written
	entryHeap *Term
	nowEntry  *Term
	expr      string
}

type Snapshot struct {
	mods  map[string]Sort // for loop heads: the declared modifies set
	restr []restrictEntry
	heaps map[string]*Term
	alloc *Term
	epoch int
}

type State struct {
	frames    []*Frame
	heaps     map[string]*Term
	alloc     *Term
	closures  map[*Term]*Closure
	panicking bool
	panicWhat string
	trace     []string
	epoch     int // bumped by a havoc of the whole heap
	acq       []*Term // locks acquired (and not syntactically released) on this path by the function under verification
}

func (st *State) top() *Frame { return st.frames[len(st.frames)-1] }

func (st *State) clone() *State {
	n := &State{alloc: st.alloc, panicking: st.panicking, panicWhat: st.panicWhat, epoch: st.epoch, acq: append([]*Term(nil), st.acq...)}
	n.heaps = make(map[string]*Term, len(st.heaps))
	for k, v := range st.heaps {
		n.heaps[k] = v
	}
	n.closures = make(map[*Term]*Closure, len(st.closures))
	for k, v := range st.closures {
		n.closures[k] = v
	}
	n.trace = append([]string(nil), st.trace...)
	// frames: locals cells must be copied consistently (LocalAddr values in env
	// point to cells) -> remap
	cellMap := map[*LocalCell]*LocalCell{}
	var remap func(v Val) Val
	remap = func(v Val) Val {
		switch x := v.(type) {
		case *LocalAddr:
			nc, ok := cellMap[x.cell]
			if !ok {
				nc = &LocalCell{v: x.cell.v, T: x.cell.T, name: x.cell.name}
				cellMap[x.cell] = nc
			}
			return &LocalAddr{cell: nc, path: x.path}
		case *StructVal:
			ch := false
			nf := make([]Val, len(x.F))
			for i, f := range x.F {
				nf[i] = remap(f)
				if nf[i] != f {
					ch = true
				}
			}
			if ch {
				return &StructVal{T: x.T, F: nf}
			}
			return x
		case *ArrayVal:
			ne := make([]Val, len(x.E))
			for i, f := range x.E {
				ne[i] = remap(f)
			}
			return &ArrayVal{T: x.T, E: ne}
		case TupleVal:
			nf := make(TupleVal, len(x))
			for i, f := range x {
				nf[i] = remap(f)
			}
			return nf
		}
		return v
	}
	for _, f := range st.frames {
		for _, c := range f.locals {
			if _, ok := cellMap[c]; !ok {
				cellMap[c] = &LocalCell{v: c.v, T: c.T, name: c.name}
			}
		}
	}
	for _, c := range cellMap {
		c.v = remap(c.v)
	}
	for _, f := range st.frames {
		nf := &Frame{fn: f.fn, blk: f.blk, prev: f.prev, pc: f.pc, onRet: f.onRet, isDefer: f.isDefer, unwind: f.unwind, depth: f.depth, entry: f.entry}
		nf.env = make(map[ssa.Value]Val, len(f.env))
		for k, v := range f.env {
			nf.env[k] = remap(v)
		}
		nf.locals = make(map[*ssa.Alloc]*LocalCell, len(f.locals))
		for k, c := range f.locals {
			nf.locals[k] = cellMap[c]
		}
		nf.defers = make([]*Deferred, len(f.defers))
		for i, d := range f.defers {
			nd := *d
			nd.args = make([]Val, len(d.args))
			for j, a := range d.args {
				nd.args[j] = remap(a)
			}
			nd.clo = remap(d.clo)
			nf.defers[i] = &nd
		}
		nf.visits = make(map[int]int, len(f.visits))
		for k, v := range f.visits {
			nf.visits[k] = v
		}
		nf.inCut = make(map[int]bool, len(f.inCut))
		for k, v := range f.inCut {
			nf.inCut[k] = v
		}
		if f.heads != nil {
			nf.heads = make(map[int]*Snapshot, len(f.heads))
			for k, v := range f.heads {
				nf.heads[k] = v
			}
		}
		n.frames = append(n.frames, nf)
	}
	// closures may bind LocalAddr values
	for k, c := range n.closures {
		ch := false
		nb := make([]Val, len(c.bindings))
		for i, b := range c.bindings {
			nb[i] = remap(b)
			if nb[i] != b {
				ch = true
			}
		}
		if ch {
			n.closures[k] = &Closure{fn: c.fn, bindings: nb}
		}
	}
	return n
}

func (st *State) snapshot() *Snapshot {
	s := &Snapshot{heaps: make(map[string]*Term, len(st.heaps)), alloc: st.alloc, epoch: st.epoch}
	for k, v := range st.heaps {
		s.heaps[k] = v
	}
	return s
}

func initialHeap(name string, s Sort, epoch int) *Term {
	return Const(fmt.Sprintf("|%s@e%d|", name, epoch), s)
}

func (st *State) heap(name string, s Sort) *Term {
	if h, ok := st.heaps[name]; ok {
		return h
	}
	h := initialHeap(name, s, st.epoch)
	st.heaps[name] = h
	return h
}

func (sn *Snapshot) heap(name string, s Sort) *Term {
	if h, ok := sn.heaps[name]; ok {
		return h
	}
	return initialHeap(name, s, sn.epoch)
}

func pathGet(v Val, path []int) Val {
	for _, i := range path {
		switch x := v.(type) {
		case *StructVal:
			v = x.F[i]
		case *ArrayVal:
			v = x.E[i]
		default:
			panic(fmt.Sprintf("pathGet: %T", v))
		}
	}
	return v
}

func pathSet(v Val, path []int, nv Val) Val {
	if len(path) == 0 {
		return nv
	}
	switch x := v.(type) {
	case *StructVal:
		nf := append([]Val(nil), x.F...)
		nf[path[0]] = pathSet(x.F[path[0]], path[1:], nv)
		return &StructVal{T: x.T, F: nf}
	case *ArrayVal:
		ne := append([]Val(nil), x.E...)
		ne[path[0]] = pathSet(x.E[path[0]], path[1:], nv)
		return &ArrayVal{T: x.T, E: ne}
	}
	panic(fmt.Sprintf("pathSet: %T", v))
}
