package main

// SMT terms with hash-consing and a small syntactic simplifier. The simplifier
// only performs rewrites that are valid in the SMT theories used (arrays, LIA,
// datatypes), so every simplified term is equivalent to the original one.

import (
	"fmt"
	"math/big"
	"strings"
)

type Sort string

const (
	SInt   Sort = "Int"
	SBool  Sort = "Bool"
	SStr   Sort = "Str"
	SSlice Sort = "Slice"
	SIface Sort = "Iface"
)

func ArrSort(elem Sort) Sort { return Sort("(Array Int " + string(elem) + ")") }
func (s Sort) IsArr() bool   { return strings.HasPrefix(string(s), "(Array Int ") }
func (s Sort) Elem() Sort {
	return Sort(strings.TrimSuffix(strings.TrimPrefix(string(s), "(Array Int "), ")"))
}

type Term struct {
	Op   string
	Args []*Term
	S    Sort
	key  string
	// for bound-variable binders
	Bind []*Term // quantifier variables (forall/exists)
	Pats [][]*Term
}

var termTab = map[string]*Term{}

func mk(op string, s Sort, args ...*Term) *Term {
	var sb strings.Builder
	sb.WriteString(op)
	sb.WriteByte(':')
	sb.WriteString(string(s))
	for _, a := range args {
		sb.WriteByte(' ')
		sb.WriteString(a.key)
	}
	k := sb.String()
	if len(k) > 120 {
		// keep keys short: use the pointer identity of hash-consed children
		var sb2 strings.Builder
		sb2.WriteString(op)
		sb2.WriteByte(':')
		sb2.WriteString(string(s))
		for _, a := range args {
			fmt.Fprintf(&sb2, " %p", a)
		}
		k = sb2.String()
	}
	if t, ok := termTab[k]; ok {
		return t
	}
	t := &Term{Op: op, Args: args, S: s, key: k}
	termTab[k] = t
	return t
}

var (
	TTrue  = mk("true", SBool)
	TFalse = mk("false", SBool)
)

func Const(name string, s Sort) *Term { return mk(name, s) }

func IntLit(n int64) *Term { return mk(fmt.Sprintf("%d", n), SInt) }
func BigLit(n *big.Int) *Term {
	return mk(n.String(), SInt)
}
func BoolLit(b bool) *Term {
	if b {
		return TTrue
	}
	return TFalse
}

func (t *Term) IsLit() bool {
	if len(t.Args) != 0 || t.S != SInt {
		return false
	}
	c := t.Op[0]
	return c == '-' && len(t.Op) > 1 || (c >= '0' && c <= '9')
}
func (t *Term) LitVal() *big.Int {
	n := new(big.Int)
	n.SetString(t.Op, 10)
	return n
}
func (t *Term) IsConstName() bool { return len(t.Args) == 0 && !t.IsLit() && t != TTrue && t != TFalse }

func App(op string, s Sort, args ...*Term) *Term { return mk(op, s, args...) }

func (t *Term) String() string {
	var sb strings.Builder
	t.write(&sb)
	return sb.String()
}

func (t *Term) write(sb *strings.Builder) {
	if t.Op == "forall" || t.Op == "exists" {
		sb.WriteString("(" + t.Op + " (")
		for _, v := range t.Bind {
			sb.WriteString("(" + v.Op + " " + string(v.S) + ")")
		}
		sb.WriteString(") ")
		if len(t.Pats) > 0 {
			sb.WriteString("(! ")
		}
		t.Args[0].write(sb)
		for _, p := range t.Pats {
			sb.WriteString(" :pattern (")
			for i, x := range p {
				if i > 0 {
					sb.WriteByte(' ')
				}
				x.write(sb)
			}
			sb.WriteString(")")
		}
		if len(t.Pats) > 0 {
			sb.WriteString(")")
		}
		sb.WriteString(")")
		return
	}
	if len(t.Args) == 0 {
		if t.IsLit() && t.Op[0] == '-' {
			sb.WriteString("(- " + t.Op[1:] + ")")
			return
		}
		sb.WriteString(t.Op)
		return
	}
	sb.WriteByte('(')
	sb.WriteString(t.Op)
	for _, a := range t.Args {
		sb.WriteByte(' ')
		a.write(sb)
	}
	sb.WriteByte(')')
}

var qcount int

func Forall(vars []*Term, body *Term, pats ...[]*Term) *Term {
	if body == TTrue {
		return TTrue
	}
	qcount++
	t := &Term{Op: "forall", Args: []*Term{body}, S: SBool, Bind: vars, Pats: pats}
	t.key = fmt.Sprintf("forall#%d", qcount)
	return t
}
func Exists(vars []*Term, body *Term) *Term {
	qcount++
	t := &Term{Op: "exists", Args: []*Term{body}, S: SBool, Bind: vars}
	t.key = fmt.Sprintf("exists#%d", qcount)
	return t
}

// ---- smart constructors ----------------------------------------------------

func Not(a *Term) *Term {
	switch {
	case a == TTrue:
		return TFalse
	case a == TFalse:
		return TTrue
	case a.Op == "not":
		return a.Args[0]
	}
	return mk("not", SBool, a)
}

func And(xs ...*Term) *Term {
	var out []*Term
	for _, x := range xs {
		if x == TTrue {
			continue
		}
		if x == TFalse {
			return TFalse
		}
		if x.Op == "and" {
			out = append(out, x.Args...)
		} else {
			out = append(out, x)
		}
	}
	switch len(out) {
	case 0:
		return TTrue
	case 1:
		return out[0]
	}
	return mk("and", SBool, out...)
}

func Or(xs ...*Term) *Term {
	var out []*Term
	for _, x := range xs {
		if x == TFalse {
			continue
		}
		if x == TTrue {
			return TTrue
		}
		if x.Op == "or" {
			out = append(out, x.Args...)
		} else {
			out = append(out, x)
		}
	}
	switch len(out) {
	case 0:
		return TFalse
	case 1:
		return out[0]
	}
	return mk("or", SBool, out...)
}

func Implies(a, b *Term) *Term {
	switch {
	case a == TTrue:
		return b
	case a == TFalse, b == TTrue:
		return TTrue
	case b == TFalse:
		return Not(a)
	}
	return mk("=>", SBool, a, b)
}

func Ite(c, a, b *Term) *Term {
	switch {
	case c == TTrue:
		return a
	case c == TFalse:
		return b
	case a == b:
		return a
	}
	if a.S == SBool {
		if a == TTrue && b == TFalse {
			return c
		}
		if a == TFalse && b == TTrue {
			return Not(c)
		}
	}
	return mk("ite", a.S, c, a, b)
}

// freshRefs records constants that denote distinct freshly allocated objects.
var freshRefs = map[*Term]bool{}

// distinctConst: both are known-distinct constants (literals, fresh refs,
// globals).
func provablyDistinct(a, b *Term) bool {
	if a == b {
		return false
	}
	if a.IsLit() && b.IsLit() {
		return true
	}
	fa, fb := freshRefs[a], freshRefs[b]
	if fa && fb {
		return true
	}
	if (fa && b.IsLit()) || (fb && a.IsLit()) {
		return true // fresh refs are > 0 and never equal a literal we use (0)
	}
	if a.Op == "el" && b.Op == "el" {
		if a.Args[0] == b.Args[0] && provablyDistinct(a.Args[1], b.Args[1]) {
			return true
		}
		if provablyDistinct(a.Args[0], b.Args[0]) {
			return true
		}
	}
	if a.Op == "el" && (fb || b.IsLit()) || b.Op == "el" && (fa || a.IsLit()) {
		return true // rkind differs
	}
	if strings.HasPrefix(a.Op, "|fa!") && (fb || b.IsLit() || b.Op == "el") {
		return true
	}
	if strings.HasPrefix(b.Op, "|fa!") && (fa || a.IsLit() || a.Op == "el") {
		return true
	}
	if strings.HasPrefix(a.Op, "|fa!") && a.Op == b.Op && len(a.Args) == 1 && provablyDistinct(a.Args[0], b.Args[0]) {
		return true
	}
	if strings.HasPrefix(a.Op, "|fa!") && strings.HasPrefix(b.Op, "|fa!") && a.Op != b.Op {
		return true
	}
	// x + c1 vs x + c2
	if a.Op == "+" && b.Op == "+" && len(a.Args) == 2 && len(b.Args) == 2 && a.Args[0] == b.Args[0] && provablyDistinct(a.Args[1], b.Args[1]) {
		return true
	}
	if a.Op == "+" && len(a.Args) == 2 && a.Args[0] == b && a.Args[1].IsLit() && a.Args[1].LitVal().Sign() != 0 {
		return true
	}
	if b.Op == "+" && len(b.Args) == 2 && b.Args[0] == a && b.Args[1].IsLit() && b.Args[1].LitVal().Sign() != 0 {
		return true
	}
	return false
}

func Eq(a, b *Term) *Term {
	if a == b {
		return TTrue
	}
	if a.S != b.S {
		panic(fmt.Sprintf("Eq sort mismatch: %s:%s vs %s:%s", a, a.S, b, b.S))
	}
	if provablyDistinct(a, b) {
		return TFalse
	}
	if a.S == SBool {
		if a == TTrue {
			return b
		}
		if b == TTrue {
			return a
		}
		if a == TFalse {
			return Not(b)
		}
		if b == TFalse {
			return Not(a)
		}
	}
	if a.Op == "mkiface" && b.Op == "mkiface" {
		// constructor injectivity; useful when type ids are distinct literals
		if provablyDistinct(a.Args[0], b.Args[0]) {
			return TFalse
		}
	}
	if a.key > b.key {
		a, b = b, a
	}
	return mk("=", SBool, a, b)
}
func Neq(a, b *Term) *Term { return Not(Eq(a, b)) }

func arith(op string, a, b *Term) *Term {
	if a.IsLit() && b.IsLit() {
		x, y := a.LitVal(), b.LitVal()
		r := new(big.Int)
		switch op {
		case "+":
			r.Add(x, y)
		case "-":
			r.Sub(x, y)
		case "*":
			r.Mul(x, y)
		}
		return BigLit(r)
	}
	return nil
}

func Add(a, b *Term) *Term {
	if r := arith("+", a, b); r != nil {
		return r
	}
	if b.IsLit() && b.LitVal().Sign() == 0 {
		return a
	}
	if a.IsLit() && a.LitVal().Sign() == 0 {
		return b
	}
	// (x + c1) + c2
	if b.IsLit() && a.Op == "+" && len(a.Args) == 2 && a.Args[1].IsLit() {
		return Add(a.Args[0], Add(a.Args[1], b))
	}
	if a.IsLit() && !b.IsLit() {
		a, b = b, a
	}
	return mk("+", SInt, a, b)
}
func Sub(a, b *Term) *Term {
	if r := arith("-", a, b); r != nil {
		return r
	}
	if b.IsLit() {
		return Add(a, BigLit(new(big.Int).Neg(b.LitVal())))
	}
	if a == b {
		return IntLit(0)
	}
	return mk("-", SInt, a, b)
}
func Mul(a, b *Term) *Term {
	if r := arith("*", a, b); r != nil {
		return r
	}
	if b.IsLit() && b.LitVal().Cmp(big.NewInt(1)) == 0 {
		return a
	}
	if a.IsLit() && a.LitVal().Cmp(big.NewInt(1)) == 0 {
		return b
	}
	return mk("*", SInt, a, b)
}
func Neg(a *Term) *Term { return Sub(IntLit(0), a) }

func cmp(op string, a, b *Term) *Term {
	if a.IsLit() && b.IsLit() {
		c := a.LitVal().Cmp(b.LitVal())
		switch op {
		case "<":
			return BoolLit(c < 0)
		case "<=":
			return BoolLit(c <= 0)
		case ">":
			return BoolLit(c > 0)
		case ">=":
			return BoolLit(c >= 0)
		}
	}
	if a == b {
		return BoolLit(op == "<=" || op == ">=")
	}
	return mk(op, SBool, a, b)
}
func Lt(a, b *Term) *Term { return cmp("<", a, b) }
func Le(a, b *Term) *Term { return cmp("<=", a, b) }
func Gt(a, b *Term) *Term { return cmp(">", a, b) }
func Ge(a, b *Term) *Term { return cmp(">=", a, b) }

func Div(a, b *Term) *Term {
	if a.IsLit() && b.IsLit() && b.LitVal().Sign() > 0 && a.LitVal().Sign() >= 0 {
		return BigLit(new(big.Int).Div(a.LitVal(), b.LitVal()))
	}
	return mk("div", SInt, a, b)
}
func Mod(a, b *Term) *Term {
	if a.IsLit() && b.IsLit() && b.LitVal().Sign() > 0 {
		return BigLit(new(big.Int).Mod(a.LitVal(), b.LitVal()))
	}
	return mk("mod", SInt, a, b)
}

// constDefs maps a named constant to the term it was defined equal to (used to
// see through named heap versions).
var constDefs = map[*Term]*Term{}

func Select(arr, idx *Term) *Term {
	if hasBound(idx) {
		// under a binder keep the named heap version: patterns must mention the
		// heap the surrounding facts talk about
		return mk("select", arr.S.Elem(), arr, idx)
	}
	a := arr
	for {
		d := a
		if dd, ok := constDefs[a]; ok {
			d = dd
		}
		if d.Op == "store" {
			if d.Args[1] == idx {
				return d.Args[2]
			}
			if provablyDistinct(d.Args[1], idx) {
				a = d.Args[0]
				continue
			}
		}
		break
	}
	return mk("select", a.S.Elem(), a, idx)
}

func Store(arr, idx, v *Term) *Term {
	if v.S != arr.S.Elem() {
		panic(fmt.Sprintf("Store sort mismatch: array %s value %s:%s", arr.S, v, v.S))
	}
	return mk("store", arr.S, arr, idx, v)
}

// datatype helpers ------------------------------------------------------------

func MkSlice(arr, off, ln, cp *Term) *Term { return mk("mkslice", SSlice, arr, off, ln, cp) }
func slAcc(name string, i int, s *Term) *Term {
	if d, ok := constDefs[s]; ok && (d.Op == "mkslice" || d.Op == "ite") {
		s = d
	}
	if s.Op == "mkslice" {
		return s.Args[i]
	}
	if s.Op == "ite" {
		return Ite(s.Args[0], slAcc(name, i, s.Args[1]), slAcc(name, i, s.Args[2]))
	}
	return mk(name, SInt, s)
}
func SlArr(s *Term) *Term { return slAcc("sarr", 0, s) }
func SlOff(s *Term) *Term { return slAcc("soff", 1, s) }
func SlLen(s *Term) *Term { return slAcc("slen", 2, s) }
func SlCap(s *Term) *Term { return slAcc("scap", 3, s) }

var NilSlice = MkSlice(IntLit(0), IntLit(0), IntLit(0), IntLit(0))

var EmptyStr = Const("str!empty", SStr)

func MkIface(tid, ref, iv *Term, bv *Term, sv *Term) *Term {
	return mk("mkiface", SIface, tid, ref, iv, bv, sv)
}

var NilIface = MkIface(IntLit(0), IntLit(0), IntLit(0), TFalse, EmptyStr)

func ifAcc(name string, i int, s Sort, x *Term) *Term {
	if d, ok := constDefs[x]; ok && (d.Op == "mkiface" || d.Op == "ite") {
		x = d
	}
	if x.Op == "mkiface" {
		return x.Args[i]
	}
	if x.Op == "ite" {
		return Ite(x.Args[0], ifAcc(name, i, s, x.Args[1]), ifAcc(name, i, s, x.Args[2]))
	}
	return mk(name, s, x)
}
func IfTid(x *Term) *Term  { return ifAcc("itid", 0, SInt, x) }
func IfRef(x *Term) *Term  { return ifAcc("iref", 1, SInt, x) }
func IfInt(x *Term) *Term  { return ifAcc("iint", 2, SInt, x) }
func IfBool(x *Term) *Term { return ifAcc("ibool", 3, SBool, x) }
func IfStr(x *Term) *Term  { return ifAcc("istr", 4, SStr, x) }

// Allocd: the object containing x was allocated no later than time now
func Allocd(now, x *Term) *Term {
	r := App("rroot", SInt, x)
	return And(Neq(r, IntLit(0)), Le(App("birth", SInt, r), now))
}

func El(arr, idx *Term) *Term { return mk("el", SInt, arr, idx) }

// substitution (used for pure spec functions and quantifier instantiation)
func Subst(t *Term, m map[*Term]*Term) *Term {
	if r, ok := m[t]; ok {
		return r
	}
	if len(t.Args) == 0 {
		return t
	}
	if t.Op == "forall" || t.Op == "exists" {
		body := Subst(t.Args[0], m)
		var pats [][]*Term
		for _, p := range t.Pats {
			var np []*Term
			for _, x := range p {
				np = append(np, Subst(x, m))
			}
			pats = append(pats, np)
		}
		if t.Op == "forall" {
			return Forall(t.Bind, body, pats...)
		}
		return Exists(t.Bind, body)
	}
	args := make([]*Term, len(t.Args))
	ch := false
	for i, a := range t.Args {
		args[i] = Subst(a, m)
		if args[i] != a {
			ch = true
		}
	}
	if !ch {
		return t
	}
	return rebuild(t.Op, t.S, args)
}

// rebuild re-applies smart constructors after substitution
func rebuild(op string, s Sort, args []*Term) *Term {
	switch op {
	case "and":
		return And(args...)
	case "or":
		return Or(args...)
	case "not":
		return Not(args[0])
	case "=>":
		return Implies(args[0], args[1])
	case "ite":
		return Ite(args[0], args[1], args[2])
	case "=":
		return Eq(args[0], args[1])
	case "select":
		return Select(args[0], args[1])
	case "+":
		if len(args) == 2 {
			return Add(args[0], args[1])
		}
	case "-":
		if len(args) == 2 {
			return Sub(args[0], args[1])
		}
	case "<":
		return Lt(args[0], args[1])
	case "<=":
		return Le(args[0], args[1])
	case ">":
		return Gt(args[0], args[1])
	case ">=":
		return Ge(args[0], args[1])
	case "sarr":
		return SlArr(args[0])
	case "soff":
		return SlOff(args[0])
	case "slen":
		return SlLen(args[0])
	case "scap":
		return SlCap(args[0])
	case "itid":
		return IfTid(args[0])
	case "iref":
		return IfRef(args[0])
	case "iint":
		return IfInt(args[0])
	case "ibool":
		return IfBool(args[0])
	case "istr":
		return IfStr(args[0])
	}
	return mk(op, s, args...)
}

func termSize(t *Term, seen map[*Term]bool) int {
	if seen[t] {
		return 1
	}
	seen[t] = true
	n := 1
	for _, a := range t.Args {
		n += termSize(a, seen)
	}
	return n
}

var treeSizeMemo = map[*Term]int{}

// treeSize: size of the term printed as a tree (saturating)
func treeSize(t *Term) int {
	if n, ok := treeSizeMemo[t]; ok {
		return n
	}
	n := 1
	for _, a := range t.Args {
		n += treeSize(a)
		if n > 1<<30 {
			n = 1 << 30
			break
		}
	}
	treeSizeMemo[t] = n
	return n
}

var hasBoundMemo = map[*Term]bool{}

// hasBound: does the term mention a quantifier-bound variable?
func hasBound(t *Term) bool {
	if v, ok := hasBoundMemo[t]; ok {
		return v
	}
	r := false
	if len(t.Args) == 0 {
		r = isBoundVar(t)
	} else if t.Op == "forall" || t.Op == "exists" {
		r = true // conservatively: do not name quantified formulas
	} else {
		for _, a := range t.Args {
			if hasBound(a) {
				r = true
				break
			}
		}
	}
	hasBoundMemo[t] = r
	return r
}

var isBoundVar = func(t *Term) bool { return false }
