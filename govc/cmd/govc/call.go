package main

import (
	"sort"
	"go/token"
	"go/ast"
	"os"
	"fmt"
	"go/types"
	"strings"

	"golang.org/x/tools/go/ssa"
)

type contFn func(st *State, res Val)

// evalCallee evaluates function value and arguments (for defer / go)
func (e *Exec) evalCallee(st *State, fr *Frame, cc *ssa.CallCommon, d *Deferred) {
	if cc.IsInvoke() {
		d.clo = e.val(fr, cc.Value)
	} else if _, isB := cc.Value.(*ssa.Builtin); !isB {
		d.clo = e.val(fr, cc.Value)
	}
	for _, a := range cc.Args {
		d.args = append(d.args, e.val(fr, a))
	}
}

func (e *Exec) callInstr(st *State, fr *Frame, site ssa.Instruction, cc *ssa.CallCommon, k contFn) bool {
	d := &Deferred{common: cc, site: site}
	e.evalCallee(st, fr, cc, d)
	return e.dispatch(st, fr, d, k, false)
}

func (e *Exec) invokeDeferred(st *State, fr *Frame, d *Deferred, k contFn) bool {
	return e.dispatch(st, fr, d, k, true)
}

// dispatch resolves the callee and performs the call.
func (e *Exec) dispatch(st *State, fr *Frame, d *Deferred, k contFn, isDefer bool) bool {
	cc := d.common
	if b, ok := cc.Value.(*ssa.Builtin); ok {
		res := e.builtin(st, fr, d.site, b, cc, d.args)
		if res == pathDone {
			return true
		}
		k(st, res)
		return false
	}
	if cc.IsInvoke() {
		return e.invoke(st, fr, d, k, isDefer)
	}
	var fn *ssa.Function
	var bindings []Val
	switch v := cc.Value.(type) {
	case *ssa.Function:
		fn = v
	case *ssa.MakeClosure:
		fn = v.Fn.(*ssa.Function)
		c := st.closures[e.term(d.clo)]
		if c == nil {
			panic("closure bindings lost for " + fn.String())
		}
		bindings = c.bindings
	default:
		f := e.term(d.clo)
		e.check(st, fr, "SAFE.nil", d.site, "", Neq(f, IntLit(0)))
		if c, ok := st.closures[f]; ok {
			fn, bindings = c.fn, c.bindings
		} else if g, ok := fnByRef[f]; ok {
			fn = g
		} else {
			return e.callFuncValue(st, fr, d, f, k)
		}
	}
	return e.callFunction(st, fr, d.site, fn, bindings, d.args, k, isDefer)
}

func (e *Exec) callFunction(st *State, fr *Frame, site ssa.Instruction, fn *ssa.Function, bindings []Val, args []Val, k contFn, isDefer bool) bool {
	name := shortName(fn)
	own := fn.Pkg != nil && ownPkg(fn.Pkg.Pkg) || (fn.Pkg == nil && fn.Synthetic != "" && len(fn.Blocks) > 0 && ownSynthetic(fn))
	if own {
		if c, ok := e.db.funcs[name]; ok && !c.Inline && !(c.InlineLit && literalVariadic(fn, args)) {
			e.usedCtr[name] = true
			e.pendingBindings = bindings
			e.checkCallerNoLocks(st, fr, site, c)
			return e.applyContract(st, fr, site, c, fn, args, k)
		}
		if len(fn.Blocks) == 0 {
			panic(unsupported("function without body: " + name))
		}
		e.inlined[name] = true
		return e.inline(st, fr, fn, bindings, args, k, isDefer)
	}
	// external function
	full := fn.String()
	if full == "(*sync.WaitGroup).Add" && len(e.db.wgorders) > 0 && len(args) == 2 {
		e.checkWgOrder(st, fr, site, e.term(args[0]), e.term(args[1]))
	}
	if len(e.db.callguards) > 0 {
		e.checkCallGuards(st, fr, site, full)
	}
	if c, ok := e.db.externs[full]; ok {
		e.usedExt[full] = true
		return e.applyContract(st, fr, site, c, fn, args, k)
	}
	if h, ok := externs[full]; ok {
		e.usedExt[full] = true
		return h(e, st, fr, site, args, k)
	}
	// generic instantiations etc.
	if i := strings.Index(full, "["); i > 0 {
		if h, ok := externs[full[:i]]; ok {
			e.usedExt[full[:i]] = true
			return h(e, st, fr, site, args, k)
		}
	}
	panic(unsupported("no catalogue entry for external function " + full))
}

func ownSynthetic(fn *ssa.Function) bool {
	// wrappers/thunks/bound methods of own types
	s := fn.String()
	return strings.Contains(s, pkgGldap)
}

func (e *Exec) inline(st *State, fr *Frame, fn *ssa.Function, bindings []Val, args []Val, k contFn, isDefer bool) bool {
	depth := 0
	if fr != nil {
		depth = fr.depth + 1
	}
	if depth > 60 {
		panic(unsupported("inlining too deep (recursion?) at " + fn.String()))
	}
	for _, f := range st.frames {
		if f.fn == fn && depth > 8 {
			cnt := 0
			for _, g := range st.frames {
				if g.fn == fn {
					cnt++
				}
			}
			if cnt > 3 {
				panic(unsupported("recursive function needs a contract: " + fn.String()))
			}
		}
	}
	nf := &Frame{fn: fn, env: map[ssa.Value]Val{}, locals: map[*ssa.Alloc]*LocalCell{}, blk: fn.Blocks[0], onRet: k, isDefer: isDefer, visits: map[int]int{}, inCut: map[int]bool{}, depth: depth}
	if len(args) != len(fn.Params) {
		panic(fmt.Sprintf("arity mismatch calling %s: %d args, %d params", fn, len(args), len(fn.Params)))
	}
	for i, p := range fn.Params {
		nf.env[p] = args[i]
	}
	for i, fv := range fn.FreeVars {
		nf.env[fv] = bindings[i]
	}
	st.frames = append(st.frames, nf)
	st.trace = append(st.trace, fn.Name())
	return false
}

// ---- interface method calls ---------------------------------------------------------

func ifaceKey(t types.Type) string {
	if n, ok := t.(*types.Named); ok {
		if n.Obj().Pkg() == nil {
			return n.Obj().Name()
		}
		return n.Obj().Pkg().Path() + "." + n.Obj().Name()
	}
	return t.String()
}

func (e *Exec) invoke(st *State, fr *Frame, d *Deferred, k contFn, isDefer bool) bool {
	cc := d.common
	recv := e.term(d.clo)
	e.check(st, fr, "SAFE.nil", d.site, "", Neq(IfTid(recv), IntLit(0)))
	it := cc.Value.Type()
	key := ifaceKey(it) + "." + cc.Method.Name()
	short := strings.ReplaceAll(strings.ReplaceAll(key, pkgTD, "testdirectory"), pkgGldap, "gldap")
	if c, ok := e.db.methods[short]; ok {
		e.usedCtr["method "+short] = true
		return e.applyContract(st, fr, d.site, c, nil, append([]Val{recv}, d.args...), k)
	}
	// known dynamic type?
	tid := IfTid(recv)
	if tid.IsLit() {
		T := tidTypes[int(tid.LitVal().Int64())]
		return e.callMethodOn(st, fr, d, T, recv, k, isDefer)
	}
	if len(e.db.callguards) > 0 {
		e.checkCallGuards(st, fr, d.site, "iface:"+key)
	}
	if c, ok := e.db.externs["iface:"+key]; ok {
		e.usedExt["iface:"+key] = true
		return e.applyContract(st, fr, d.site, c, nil, append([]Val{recv}, d.args...), k)
	}
	if h, ok := externs["iface:"+key]; ok {
		e.usedExt["iface:"+key] = true
		return h(e, st, fr, d.site, append([]Val{recv}, d.args...), k)
	}
	// closed-world split over own implementing types
	iface := under(it).(*types.Interface)
	var cands []types.Type
	for _, T := range e.P.ownTypes {
		if _, isI := under(T).(*types.Interface); isI {
			continue
		}
		if types.Implements(T, iface) {
			cands = append(cands, T)
		} else if pt := types.NewPointer(T); types.Implements(pt, iface) {
			cands = append(cands, pt)
		}
	}
	named, _ := it.(*types.Named)
	exported := named != nil && named.Obj().Exported()
	if exported {
		panic(unsupported("call of exported interface method without contract: " + key))
	}
	if len(cands) == 0 {
		panic(unsupported("no implementation known for " + key))
	}
	var conds []*Term
	var fs []func(st *State)
	var any []*Term
	for _, T := range cands {
		T := T
		c := Eq(tid, IntLit(int64(tidOf(T))))
		any = append(any, c)
		conds = append(conds, c)
		fs = append(fs, func(s *State) {
			if e.callMethodOn(s, s.top(), d, T, recv, k, isDefer) {
				// handled entirely inside: nothing left to run on this state
				s.frames = nil
			}
		})
	}
	// closed world: dynamic type is one of the candidates
	e.assume(Or(any...))
	e.forkN(st, conds, fs)
	return true
}

func (e *Exec) callMethodOn(st *State, fr *Frame, d *Deferred, T types.Type, recv *Term, k contFn, isDefer bool) bool {
	cc := d.common
	ms := e.P.prog.MethodSets.MethodSet(T)
	sel := ms.Lookup(cc.Method.Pkg(), cc.Method.Name())
	if sel == nil {
		panic(unsupported(fmt.Sprintf("type %s has no method %s", T, cc.Method.Name())))
	}
	fn := e.P.prog.MethodValue(sel)
	if fn == nil {
		panic(unsupported("abstract method " + cc.Method.Name()))
	}
	rv := e.ifacePayload(st, recv, T)
	return e.callFunction(st, fr, d.site, fn, nil, append([]Val{rv}, d.args...), k, isDefer)
}

// call of a function value whose target is not known on this path: use the
// contract of its (named) function type.
func (e *Exec) callFuncValue(st *State, fr *Frame, d *Deferred, f *Term, k contFn) bool {
	t := d.common.Value.Type()
	key := ifaceKey(t)
	short := strings.ReplaceAll(strings.ReplaceAll(key, pkgTD, "testdirectory"), pkgGldap, "gldap")
	if c, ok := e.db.ftypes[short]; ok {
		e.usedCtr["functype "+short] = true
		e.checkCallerNoLocks(st, fr, d.site, c)
		return e.applyContract(st, fr, d.site, c, nil, append([]Val{f}, d.args...), k)
	}
	if h, ok := externs["functype:"+key]; ok {
		e.usedExt["functype:"+key] = true
		return h(e, st, fr, d.site, append([]Val{f}, d.args...), k)
	}
	panic(unsupported("call of unknown function value of type " + key))
}

// ---- contracts at call sites --------------------------------------------------------

func (e *Exec) contractVars(c *Contract, fn *ssa.Function, args []Val, pkg *types.Package, ctx *SpecCtx) map[string]*specVar {
	vs := map[string]*specVar{}
	if fn != nil && len(fn.Params) > 0 && len(c.Params) == 0 {
		for i, p := range fn.Params {
			vs[p.Name()] = &specVar{v: args[i], t: p.Type()}
		}
	} else {
		for i, p := range c.Params {
			t := ctx.resolveType(p.Type)
			if t == nil {
				panic(sperr("contract %s: unknown type %s", c.Name, exprStr(p.Type)))
			}
			if i < len(args) {
				vs[p.Name] = &specVar{v: args[i], t: t}
			}
		}
	}
	return vs
}

func resultVars(vs map[string]*specVar, sig *types.Signature, res Val) {
	rs := sig.Results()
	var list []Val
	if rs.Len() == 1 {
		list = []Val{res}
	} else if rs.Len() > 1 {
		list = res.(TupleVal)
	}
	for i := 0; i < rs.Len(); i++ {
		r := rs.At(i)
		sv := &specVar{v: list[i], t: r.Type()}
		vs[fmt.Sprintf("result%d", i)] = sv
		if r.Name() != "" && r.Name() != "_" {
			if _, clash := vs[r.Name()]; !clash {
				vs[r.Name()] = sv
			}
		}
		if rs.Len() == 1 {
			vs["result"] = sv
		}
		if i == rs.Len()-1 && types.Identical(r.Type(), types.Universe.Lookup("error").Type()) {
			if _, clash := vs["err"]; !clash {
				vs["err"] = sv
			}
		}
	}
}

func (e *Exec) pkgOf(c *Contract) *types.Package { return e.P.tpkgs[c.Pkg] }

func (e *Exec) applyContract(st *State, fr *Frame, site ssa.Instruction, c *Contract, fn *ssa.Function, args []Val, k contFn) bool {
	ctx := e.newSpecCtx(st, e.pkgOf(c), nil)
	vs := e.contractVars(c, fn, args, ctx.pkg, ctx)
	if fn != nil && len(fn.FreeVars) > 0 && len(e.pendingBindings) == len(fn.FreeVars) {
		// closure called through its contract: captured variables by name
		for i, fv := range fn.FreeVars {
			pt := fv.Type().Underlying().(*types.Pointer).Elem()
			b := e.pendingBindings[i]
			vs[fv.Name()] = &specVar{get: func(c *SpecCtx) (Val, types.Type) { return c.loadAt(b, pt), pt }}
		}
	}
	e.pendingBindings = nil
	if len(c.Shapes) > 0 {
		names := strings.Fields(strings.Join(c.Shapes, " "))
		// shape variables of the callee are unknown at an arbitrary call site ...
		for _, n := range names {
			vs["has_"+n] = &specVar{v: Const(freshName("has."+n), SBool), t: tBool}
			if ctor := e.P.funcs["gldap."+n]; ctor != nil && len(ctor.AnonFuncs) == 1 {
				for _, fv := range ctor.AnonFuncs[0].FreeVars {
					pt := fv.Type().Underlying().(*types.Pointer).Elem()
					vs["arg_"+n] = &specVar{v: e.freshVal(st, "arg."+n, pt), t: pt}
				}
			}
		}
		// ... unless the option list is packed at the call site from the listed
		// constructors, in the listed order: that is one of the verified shapes
		present, ok := e.literalShape(st, fn, args, names)
		if os.Getenv("GOVC_TRACE") != "" {
			fmt.Fprintf(os.Stderr, "literalShape %s: %v %v\n", c.Name, ok, present)
		}
		if ok {
			for _, n := range names {
				b, has := present[n]
				vs["has_"+n] = &specVar{v: BoolLit(has), t: tBool}
				if has && b != nil {
					ctor := e.P.funcs["gldap."+n]
					pt := ctor.AnonFuncs[0].FreeVars[0].Type().Underlying().(*types.Pointer).Elem()
					vs["arg_"+n] = &specVar{v: ctx.loadAt(b, pt), t: pt}
				}
			}
		}
	}
	ctx.vars = vs
	cname := c.Name
	for _, r := range c.Requires {
		if len(onlyClasses) > 0 && !classSelected("PRE") && lockRelated(r.Text) {
			// lockset run: the lock-ownership conjuncts of a pre-condition are
			// obligations (class LOCK.pre), the rest of it is assumed
			for _, cj := range conjuncts(r.Expr) {
				if lockRelated(exprStr(cj)) {
					e.check(st, fr, "LOCK.pre", site, cname+" requires "+exprStr(cj)+" | "+e.P.srcLine(site.Pos()), ctx.evalBool(cj))
				}
			}
		}
		// a clause tagged with properties puts its obligation under those properties too
		// (the caller is then verified in their checks as well, see functionsFor)
		saveTags := e.curTags
		if len(r.Tags) > 0 {
			e.curTags = append(append([]string{}, saveTags...), r.Tags...)
		}
		e.check(st, fr, "PRE", site, cname+" requires "+r.Text+" | "+e.P.srcLine(site.Pos()), ctx.evalBool(r.Expr))
		e.curTags = saveTags
	}
	old := st.snapshot()
	// havoc
	var sig *types.Signature
	if fn != nil {
		sig = fn.Signature
	} else {
		sig = e.sigOfContract(c, ctx)
	}
	declared := e.modOfContract(c, fn)
	// ghosts assigned by `sets` clauses change exactly as stated there
	explicit := map[string]bool{}
	for _, m := range c.Modifies {
		explicit[m] = true
	}
	for _, sc := range c.Sets {
		if !explicit["G_"+sc.Ghost] {
			delete(declared, "G!"+sc.Ghost)
		}
	}
	e.havocMod(st, declared)
	// Heaps the body writes but the contract does not declare are left as they
	// are: the callee's FRAME obligations show that objects existing before the
	// call keep their contents, and what the post-condition says about objects the
	// callee allocated is assumed of memory that was unconstrained (A-FRESH).
	var res Val
	rs := sig.Results()
	switch rs.Len() {
	case 0:
		res = TupleVal{}
	case 1:
		res = e.freshVal(st, "ret."+shortFn(cname), rs.At(0).Type())
	default:
		tv := make(TupleVal, rs.Len())
		for i := range tv {
			tv[i] = e.freshVal(st, fmt.Sprintf("ret%d.%s", i, shortFn(cname)), rs.At(i).Type())
		}
		res = tv
	}
	post := e.newSpecCtx(st, e.pkgOf(c), old)
	pvs := map[string]*specVar{}
	for k, v := range vs {
		pvs[k] = v
	}
	if c.Results != nil {
		list := []Val{res}
		if tv, ok := res.(TupleVal); ok {
			list = tv
		}
		for i, p := range c.Results {
			pvs[p.Name] = &specVar{v: list[i], t: rs.At(i).Type()}
		}
	}
	resultVars(pvs, sig, res)
	post.vars = pvs
	mayPanic := TFalse
	switch c.Panics {
	case "any":
		mayPanic = TTrue
	case "when":
		mayPanic = Not(ctx.evalBool(c.PanicsWhen.Expr))
	}
	if mayPanic != TFalse {
		// panicking continuation: heap havoced, no post-condition
		e.ensureDecls(mayPanic)
		e.push()
		e.assume(mayPanic)
		if mayPanic == TTrue || e.sol.Feasible() {
			s2 := st.clone()
			for _, x := range c.Exits {
				p2 := *post
				p2.st = s2
				p2.heaps = s2.heap
				e.assume(p2.evalBool(x.Expr))
			}
			e.startPanic(s2, s2.top(), "panic in "+cname)
			e.run(s2)
		}
		e.pop()
	}
	e.applySets(st, c, post)
	for _, q := range c.Ensures {
		e.assume(post.evalBool(q.Expr))
	}
	for _, x := range c.Exits {
		e.assume(post.evalBool(x.Expr))
	}
	// vacuity guard: a callee contract that contradicts the state at the call
	// site would make everything after the call provable
	if (len(c.Ensures) > 0 || len(c.Sets) > 0) && !e.sol.Feasible() {
		nm := e.siteName(fr, "VACUITY", site, "post-condition of "+cname+" is inconsistent here | "+e.P.srcLine(site.Pos()))
		e.fail(nm, "VACUITY", "assuming the callee's post-condition made the path infeasible")
		if o := e.obligs[nm]; o != nil && o.Script == "" {
			o.Script = e.sol.Script("")
		}
	}
	k(st, res)
	return false
}

func shortFn(s string) string {
	if i := strings.LastIndex(s, "."); i >= 0 {
		return s[i+1:]
	}
	return s
}

func (e *Exec) sigOfContract(c *Contract, ctx *SpecCtx) *types.Signature {
	var ps, rs []*types.Var
	for _, p := range c.Params {
		ps = append(ps, types.NewVar(0, nil, p.Name, ctx.resolveType(p.Type)))
	}
	for _, p := range c.Results {
		t := ctx.resolveType(p.Type)
		if t == nil {
			panic(sperr("contract %s: unknown result type %s", c.Name, exprStr(p.Type)))
		}
		rs = append(rs, types.NewVar(0, nil, p.Name, t))
	}
	return types.NewSignatureType(nil, nil, nil, types.NewTuple(ps...), types.NewTuple(rs...), false)
}

// havocMod havocs the heaps in mod ("*" = everything known) and the allocation
// map (monotonically).
func (e *Exec) havocMod(st *State, mod map[string]Sort) {
	if _, all := mod["*"]; all {
		epochCtr++
		st.epoch = epochCtr
		for name := range st.heaps {
			if !strings.HasPrefix(name, "G!") {
				delete(st.heaps, name)
			}
		}
	}
	for _, name := range sortedSortKeys(mod) { // deterministic numbering of the fresh heap versions
		if name == "*" || name == "alloc" {
			continue
		}
		e.havocHeap(st, name, mod[name])
	}
	// allocation grows: time moves on by an unknown amount
	na := Const(freshName("now"), SInt)
	e.sol.DeclareConst(na)
	e.assume(Ge(na, st.alloc))
	st.alloc = na
}

var epochCtr int

// literalVariadic: the variadic argument is a slice of literal length (packed at
// the call site), so loops over it unroll
func literalVariadic(fn *ssa.Function, args []Val) bool {
	if !fn.Signature.Variadic() || len(args) == 0 {
		return false
	}
	t, ok := args[len(args)-1].(*Term)
	return ok && t.S == SSlice && SlLen(t).IsLit()
}

// literalShape recognises a variadic option list of literal length whose
// elements are closures made by the named constructors, strictly in the order
// in which the shapes directive lists them. It returns, per constructor
// present, the cell of its (single) captured argument.
func (e *Exec) literalShape(st *State, fn *ssa.Function, args []Val, names []string) (map[string]Val, bool) {
	if fn == nil || !literalVariadic(fn, args) {
		return nil, false
	}
	sl := args[len(args)-1].(*Term)
	n := int(SlLen(sl).LitVal().Int64())
	et := under(fn.Params[len(fn.Params)-1].Type()).(*types.Slice).Elem()
	out := map[string]Val{}
	next := 0
	for i := 0; i < n; i++ {
		v, ok := e.load(st, elemRef(sl, IntLit(int64(i))), et).(*Term)
		if !ok {
			return nil, false
		}
		cl, ok := st.closures[v]
		if !ok {
			if os.Getenv("GOVC_TRACE") != "" {
				fmt.Fprintf(os.Stderr, "literalShape: element %d is not a known closure: %s\n", i, v)
			}
			return nil, false
		}
		found := false
		for ; next < len(names); next++ {
			ctor := e.P.funcs["gldap."+names[next]]
			if ctor != nil && len(ctor.AnonFuncs) == 1 && ctor.AnonFuncs[0] == cl.fn {
				if len(cl.bindings) == 1 {
					out[names[next]] = cl.bindings[0]
				} else {
					out[names[next]] = nil
				}
				next++
				found = true
				break
			}
		}
		if !found {
			return nil, false
		}
	}
	return out, true
}

func conjuncts(ex ast.Expr) []ast.Expr {
	switch x := ex.(type) {
	case *ast.ParenExpr:
		return conjuncts(x.X)
	case *ast.BinaryExpr:
		if x.Op == token.LAND {
			return append(conjuncts(x.X), conjuncts(x.Y)...)
		}
	}
	return []ast.Expr{ex}
}

func sortedSortKeys(m map[string]Sort) []string {
	ks := make([]string, 0, len(m))
	for k := range m {
		ks = append(ks, k)
	}
	sort.Strings(ks)
	return ks
}
