package main

// Incremental SMT driver. One z3 process per Solver; every command is mirrored
// in a script stack so that an obligation can be re-run stand-alone on the
// other installed solvers.

import (
	"context"
	"bufio"
	"fmt"
	"io"
	"os"
	"os/exec"
	"strings"
	"time"
)

type Solver struct {
	cmd     *exec.Cmd
	in      io.WriteCloser
	out     *bufio.Reader
	levels  [][]string // mirrored commands per push level
	prelude string
	timeout int // ms per check
	qlv     [][]*Term // quantified assumptions per level
	crossN, CrossAgree, CrossDisagree, CrossUndecided int
	// statistics
	Checks    int
	TimeBy    map[string]float64
	decls     map[string]bool
	declLevel []map[string]bool
	bin       string
	log       *os.File
}

func NewSolver(bin string, prelude string, timeoutMs int) (*Solver, error) {
	s := &Solver{prelude: prelude, timeout: timeoutMs, TimeBy: map[string]float64{}, bin: bin}
	if err := s.start(); err != nil {
		return nil, err
	}
	return s, nil
}

func (s *Solver) start() error {
	s.cmd = exec.Command(s.bin, "-in", "-smt2")
	in, err := s.cmd.StdinPipe()
	if err != nil {
		return err
	}
	out, err := s.cmd.StdoutPipe()
	if err != nil {
		return err
	}
	s.cmd.Stderr = os.Stderr
	if err := s.cmd.Start(); err != nil {
		return err
	}
	s.in = in
	s.out = bufio.NewReaderSize(out, 1<<20)
	s.levels = [][]string{nil}
	s.qlv = [][]*Term{nil}
	s.declLevel = []map[string]bool{{}}
	s.raw(s.prelude)
	return nil
}

func (s *Solver) Close() {
	if s.cmd != nil {
		s.in.Close()
		s.cmd.Process.Kill()
		s.cmd.Wait()
		s.cmd = nil
	}
}

func (s *Solver) raw(c string) {
	if s.log != nil {
		fmt.Fprintln(s.log, c)
	}
	io.WriteString(s.in, c)
	io.WriteString(s.in, "\n")
}

func (s *Solver) send(c string) {
	s.levels[len(s.levels)-1] = append(s.levels[len(s.levels)-1], c)
	s.raw(c)
}

func (s *Solver) Push() {
	s.raw("(push 1)")
	s.levels = append(s.levels, nil)
	s.qlv = append(s.qlv, nil)
	s.declLevel = append(s.declLevel, map[string]bool{})
}
func (s *Solver) Pop() {
	s.raw("(pop 1)")
	s.levels = s.levels[:len(s.levels)-1]
	s.declLevel = s.declLevel[:len(s.declLevel)-1]
	if len(s.qlv) > 0 {
		s.qlv = s.qlv[:len(s.qlv)-1]
	}
}
func (s *Solver) Depth() int { return len(s.levels) }

func (s *Solver) declared(name string) bool {
	for _, m := range s.declLevel {
		if m[name] {
			return true
		}
	}
	return false
}

// Declare a constant or function if not declared in the current scope chain.
func (s *Solver) DeclareConst(t *Term) {
	if s.declared(t.Op) {
		return
	}
	s.declLevel[len(s.declLevel)-1][t.Op] = true
	s.send(fmt.Sprintf("(declare-const %s %s)", t.Op, t.S))
}
func (s *Solver) DeclareFun(name string, args []Sort, res Sort) {
	if s.declared(name) {
		return
	}
	s.declLevel[len(s.declLevel)-1][name] = true
	var as []string
	for _, a := range args {
		as = append(as, string(a))
	}
	s.send(fmt.Sprintf("(declare-fun %s (%s) %s)", name, strings.Join(as, " "), res))
}

func (s *Solver) Assert(t *Term) {
	if t == TTrue {
		return
	}
	s.send("(assert " + t.String() + ")")
	if hasForall(t) {
		s.qlv[len(s.qlv)-1] = append(s.qlv[len(s.qlv)-1], t)
	}
}

// AssertAxiom: a memory-model / function axiom; not a candidate for Go-side
// instantiation (its instances at arbitrary integers say nothing useful and
// the Go-side simplifier assumes sub-object addresses are never nil)
func (s *Solver) AssertAxiom(t *Term) {
	if t == TTrue {
		return
	}
	s.send("(assert " + t.String() + ")")
}

func hasForall(t *Term) bool {
	switch t.Op {
	case "forall":
		return true
	case "and":
		for _, a := range t.Args {
			if hasForall(a) {
				return true
			}
		}
	case "=>":
		return hasForall(t.Args[1])
	}
	return false
}

// instancesAt instantiates the universally quantified Int-indexed hypotheses
// of the current path at the given ground index terms (DESIGN appendix, item
// 9): consequences of facts already assumed, so adding them is sound; they
// make proofs independent of the e-matching order of the solver.
func (s *Solver) instancesAt(sks []*Term) []*Term { return s.instancesFrom(0, sks) }

// instancesFrom: as instancesAt, for the facts of solver levels >= from only
func (s *Solver) instancesFrom(from int, sks []*Term) []*Term {
	var out []*Term
	seen := map[*Term]bool{}
	var inst func(t *Term) []*Term
	inst = func(t *Term) []*Term {
		switch t.Op {
		case "and":
			var r []*Term
			for _, a := range t.Args {
				if hasForall(a) {
					r = append(r, inst(a)...)
				}
			}
			return r
		case "=>":
			var r []*Term
			for _, x := range inst(t.Args[1]) {
				r = append(r, Implies(t.Args[0], x))
			}
			return r
		case "forall":
			for _, b := range t.Bind {
				if b.S != SInt {
					return nil
				}
			}
			// frame facts quantified over cells (pattern: select of the bound
			// variable itself) are instantiated at reference-valued skolem constants
			// only (the x / y / W binders of frame goals), everything else at the
			// integer candidates only
			cellFact := false
			for _, p := range t.Pats {
				for _, x := range p {
					if x.Op == "select" && len(x.Args) == 2 && len(t.Bind) == 1 && x.Args[1] == t.Bind[0] {
						cellFact = true
					}
				}
			}
			if cellFact {
				var r []*Term
				for _, k := range sks {
					if refSkolem(k) {
						r = append(r, Subst(t.Args[0], map[*Term]*Term{t.Bind[0]: k}))
					}
				}
				return r
			}
			var r []*Term
			switch len(t.Bind) {
			case 1:
				for _, k := range sks {
					if refSkolem(k) {
						continue
					}
					r = append(r, Subst(t.Args[0], map[*Term]*Term{t.Bind[0]: k}))
				}
			case 2:
				if len(sks) <= 4 {
					for _, k := range sks {
						for _, l := range sks {
							r = append(r, Subst(t.Args[0], map[*Term]*Term{t.Bind[0]: k, t.Bind[1]: l}))
						}
					}
				}
			}
			return r
		}
		return nil
	}
	for li, lv := range s.qlv {
		if li < from {
			continue
		}
		for _, t := range lv {
			for _, x := range inst(t) {
				if x == TFalse {
					fmt.Fprintf(os.Stderr, "instancesAt: FALSE instance of %s\n", t)
					continue
				}
				if !seen[x] && x != TTrue && len(out) < 2500 {
					seen[x] = true
					out = append(out, x)
				}
			}
		}
	}
	return out
}

func (s *Solver) readLine() string {
	l, err := s.out.ReadString('\n')
	if err != nil {
		return "(error \"solver died: " + err.Error() + "\")"
	}
	return strings.TrimRight(l, "\r\n")
}

// checkRaw runs (check-sat) in the live process and returns sat/unsat/unknown.
func (s *Solver) checkRaw(timeoutMs int) (r0 string, d0 string) {
	if os.Getenv("GOVC_TRACE") != "" {
		t0 := time.Now()
		defer func() {
			n := 0
			for _, l := range s.levels {
				n += len(l)
			}
			fmt.Fprintf(os.Stderr, "check #%d depth=%d cmds=%d -> %s %.3fs\n", s.Checks, len(s.levels), n, r0, time.Since(t0).Seconds())
		}()
	}
	s.raw(fmt.Sprintf("(set-option :timeout %d)", timeoutMs))
	s.raw("(check-sat)")
	s.raw("(echo \"<<done>>\")")
	res := "unknown"
	var errs []string
	for {
		l := s.readLine()
		if l == "<<done>>" {
			break
		}
		switch {
		case l == "sat" || l == "unsat" || l == "unknown":
			res = l
		case strings.HasPrefix(l, "(error"):
			errs = append(errs, l)
			if strings.Contains(l, "solver died") {
				return "error", strings.Join(errs, "\n")
			}
		}
	}
	if len(errs) > 0 {
		return "error", strings.Join(errs, "\n")
	}
	return res, ""
}

// Script returns the stand-alone script for the current assertion stack plus
// an extra assertion.
func (s *Solver) Script(extra string) string {
	var sb strings.Builder
	sb.WriteString(s.prelude)
	sb.WriteString("\n")
	for _, lv := range s.levels {
		for _, c := range lv {
			sb.WriteString(c)
			sb.WriteString("\n")
		}
	}
	if extra != "" {
		sb.WriteString(extra)
		sb.WriteString("\n")
	}
	sb.WriteString("(check-sat)\n")
	return sb.String()
}

type CheckResult struct {
	Res    string // unsat | sat | unknown | error
	By     string // which solver decided
	Secs   float64
	Model  string
	Detail string
}

// Feasible: is the current path condition satisfiable? unknown counts as yes.
func (s *Solver) Feasible() bool {
	t0 := time.Now()
	r, _ := s.checkRaw(1500)
	if r == "unknown" && time.Since(t0) > 1300*time.Millisecond {
		// ran out of time (a loaded machine), not out of ideas: exploring an
		// infeasible branch only produces obligations nobody can prove, so try harder
		r, _ = s.checkRaw(8000)
	}
	s.TimeBy["z3-new"] += time.Since(t0).Seconds()
	s.Checks++
	return r != "unsat"
}

// primary runs the goal on the live process; the stand-alone script of the
// query is returned when it is not discharged.
func (s *Solver) primary(goal *Term) (CheckResult, string) {
	if goal == TTrue {
		return CheckResult{Res: "unsat", By: "simplifier"}, ""
	}
	s.Push()
	neg := "(assert (not " + goal.String() + "))"
	s.raw(neg)
	t0 := time.Now()
	r, detail := s.checkRaw(s.timeout)
	cr := CheckResult{Res: r, By: "z3-new", Detail: detail}
	cr.Secs = time.Since(t0).Seconds()
	s.TimeBy["z3-new"] += cr.Secs
	s.Checks++
	script := ""
	if r != "unsat" {
		script = s.Script(neg)
	} else if crossCheck && s.crossN < 400 {
		// thorough tier: a second solver must not contradict the proof
		s.crossN++
		t1 := time.Now()
		out := runScript("/usr/bin/z3", []string{"-smt2", "-in", "-T:5"}, adaptScript("z3-4.8.12", s.Script(neg)))
		s.TimeBy["z3-4.8.12/crosscheck"] += time.Since(t1).Seconds()
		switch out {
		case "unsat":
			s.CrossAgree++
		case "sat":
			s.CrossDisagree++
			cr = CheckResult{Res: "sat", By: "z3-4.8.12/crosscheck", Detail: "solver disagreement: z3 5.1.0 proves the obligation, z3 4.8.12 reports a counter-model"}
			script = s.Script(neg)
		default:
			s.CrossUndecided++
		}
	}
	s.Pop()
	return cr, script
}

// crossCheck (GOVC_CROSSCHECK, thorough tier): every obligation instance proved by
// the live solver is re-run on z3 4.8.12; `sat` there is reported as a violation
var crossCheck = os.Getenv("GOVC_CROSSCHECK") != ""

// fallbacks runs the other solvers on the stand-alone script; the last one is
// the first solver again with three times the time limit, so that a machine
// under load does not turn a slow proof into an alarm.
func (s *Solver) fallbacks(script string, cr CheckResult) CheckResult { return s.fallbacksN(script, cr, 2) }

// fallbacksN: the first n rounds only (round 1: normal limits, round 2: four times the limit)
func (s *Solver) fallbacksN(script string, cr CheckResult, n int) CheckResult {
	type alt struct {
		name, bin string
		args      []string
	}
	sec := (s.timeout + 999) / 1000
	sec4 := 4 * sec
	if sec4 > 60 {
		sec4 = 60 // the last round never waits longer than a minute per solver
	}
	rounds := [][]alt{
		{
			{"z3-new/default-config", "z3-new", []string{"-smt2", "-in", fmt.Sprintf("-T:%d", sec)}},
			{"z3-4.8.12", "/usr/bin/z3", []string{"-smt2", "-in", fmt.Sprintf("-T:%d", sec)}},
			{"cvc5", "cvc5", []string{"--lang=smt2", fmt.Sprintf("--tlimit=%d", s.timeout)}},
		},
		{
			{"z3-new/default-config/4x", "z3-new", []string{"-smt2", "-in", fmt.Sprintf("-T:%d", sec4)}},
			{"z3-new/4x", "z3-new", []string{"-smt2", "-in", fmt.Sprintf("-T:%d", sec4)}},
			{"z3-4.8.12/4x", "/usr/bin/z3", []string{"-smt2", "-in", fmt.Sprintf("-T:%d", sec4)}},
		},
	}
	if os.Getenv("GOVC_NO_LASTRESORT") != "" || n < 2 {
		rounds = rounds[:1]
	}
	for _, round := range rounds {
		// the solvers of one round race; the first proof wins
		type res struct {
			name, out string
			d         float64
		}
		ctx, cancel := context.WithCancel(context.Background())
		ch := make(chan res, len(round))
		for _, a := range round {
			a := a
			go func() {
				t1 := time.Now()
				out := runScriptCtx(ctx, a.bin, a.args, adaptScript(a.name, script))
				ch <- res{a.name, out, time.Since(t1).Seconds()}
			}()
		}
		var winner string
		for range round {
			r := <-ch
			s.TimeBy[r.name] += r.d
			if r.out == "unsat" && winner == "" {
				winner = r.name
				cancel()
			}
			if r.out == "sat" && !strings.HasPrefix(r.name, "cvc5") && cr.Res != "sat" {
				cr.Res = "sat"
				cr.By = r.name
			}
		}
		cancel()
		if winner != "" {
			return CheckResult{Res: "unsat", By: winner}
		}
	}
	return cr
}

func runScriptCtx(ctx context.Context, bin string, args []string, script string) string {
	cmd := exec.CommandContext(ctx, bin, args...)
	cmd.Stdin = strings.NewReader(script)
	out, _ := cmd.Output()
	for _, l := range strings.Split(string(out), "\n") {
		l = strings.TrimSpace(l)
		if l == "sat" || l == "unsat" || l == "unknown" {
			return l
		}
	}
	return "unknown"
}

// Prove: check that goal follows from the current stack.
func (s *Solver) Prove(goal *Term, vals []*Term) CheckResult {
	t0 := time.Now()
	cr, script := s.primary(goal)
	if cr.Res == "unknown" || cr.Res == "error" {
		cr = s.fallbacks(script, cr)
	}
	if cr.Res != "unsat" {
		lastScript = script
	}
	cr.Secs = time.Since(t0).Seconds()
	return cr
}

var lastScript string

func adaptScript(name, script string) string {
	if name != "z3-new/4x" {
		script = strings.Replace(script, "(set-option :smt.auto-config false)\n", "", 1)
	}
	if name == "cvc5" {
		return "(set-logic ALL)\n" + script
	}
	return script
}

func runScript(bin string, args []string, script string) string {
	cmd := exec.Command(bin, args...)
	cmd.Stdin = strings.NewReader(script)
	out, _ := cmd.Output()
	for _, l := range strings.Split(string(out), "\n") {
		l = strings.TrimSpace(l)
		if l == "sat" || l == "unsat" || l == "unknown" {
			return l
		}
	}
	return "unknown"
}

// getValues must be called right after a sat/unknown check in the same scope.
func (s *Solver) getValues(vals []*Term) string {
	var sb strings.Builder
	for _, v := range vals {
		s.raw("(get-value (" + v.String() + "))")
		s.raw("(echo \"<<done>>\")")
		for {
			l := s.readLine()
			if l == "<<done>>" {
				break
			}
			if strings.HasPrefix(l, "(error") {
				continue
			}
			sb.WriteString(l)
			sb.WriteString("\n")
		}
	}
	return sb.String()
}

// Eval returns the model value of one term as a string ("" if unavailable).
func (s *Solver) Eval(t *Term) string {
	s.raw("(get-value (" + t.String() + "))")
	s.raw("(echo \"<<done>>\")")
	var sb strings.Builder
	for {
		l := s.readLine()
		if l == "<<done>>" {
			break
		}
		if strings.HasPrefix(l, "(error") {
			continue
		}
		sb.WriteString(l)
	}
	return sb.String()
}

// refSkolem: a skolem constant that stands for a memory cell (binder x, y or W
// of an engine-generated frame goal or of forallref), not for an index
func refSkolem(t *Term) bool {
	n := strings.Trim(t.Op, "|")
	return strings.HasPrefix(n, "sk.q.x!") || strings.HasPrefix(n, "sk.q.y!") || strings.HasPrefix(n, "sk.q.W!")
}
