package main

import (
	"go/types"

	"golang.org/x/tools/go/ssa"
)

// applyShape fixes the variadic option list of the function under verification
// to the closures that the listed With* constructors produce for symbolic
// arguments. Spec variables: has_<Name> (bool) and arg_<Name> (the argument).
func (e *Exec) applyShape(st *State, fr *Frame, sh *Shape) {
	fn := fr.fn
	if !fn.Signature.Variadic() {
		panic(sperr("shapes: %s is not variadic", fn))
	}
	vp := fn.Params[len(fn.Params)-1]
	et := under(vp.Type()).(*types.Slice).Elem()
	e.shapeVars = map[string]*specVar{}
	for _, n := range sh.All {
		e.shapeVars["has_"+n] = &specVar{v: TFalse, t: tBool}
		// arguments of absent options are arbitrary (they only occur under has_X)
		if ctor := e.P.funcs["gldap."+n]; ctor != nil && len(ctor.AnonFuncs) == 1 {
			for _, fv := range ctor.AnonFuncs[0].FreeVars {
				pt := fv.Type().Underlying().(*types.Pointer).Elem()
				e.shapeVars["arg_"+n] = &specVar{v: e.freshVal(st, "absent."+n, pt), t: pt}
			}
		}
	}
	arr := e.newObject(st, "opts", nil, nil)
	for i, name := range sh.Use {
		ctor := e.P.funcs["gldap."+name]
		if ctor == nil {
			ctor = e.P.funcs["testdirectory."+name]
		}
		if ctor == nil || len(ctor.AnonFuncs) != 1 {
			panic(sperr("shapes: %s is not an option constructor", name))
		}
		clo := ctor.AnonFuncs[0]
		var bindings []Val
		for _, fv := range clo.FreeVars {
			pt := fv.Type().Underlying().(*types.Pointer).Elem()
			val := e.freshVal(st, "arg."+name, pt)
			cell := e.newObject(st, "cell."+fv.Name(), pt, val)
			bindings = append(bindings, cell)
			e.shapeVars["arg_"+name] = &specVar{v: val, t: pt}
		}
		r := e.newObject(st, "clo."+name, nil, nil)
		st.closures[r] = &Closure{fn: clo, bindings: bindings}
		e.assume(Eq(App("fnid", SInt, r), IntLit(int64(e.fnID(clo)))))
		e.store(st, El(arr, IntLit(int64(i))), et, r)
		e.shapeVars["has_"+name] = &specVar{v: TTrue, t: tBool}
	}
	n := IntLit(int64(len(sh.Use)))
	fr.env[vp] = MkSlice(arr, IntLit(0), n, n)
	_ = ssa.NaiveForm
}
