package main

import (
	"go/types"

	"crypto/sha1"
	"encoding/json"
	"flag"
	"fmt"
	"golang.org/x/tools/go/ssa"
	"os"
	"os/exec"
	"path/filepath"
	"sort"
	"strconv"
	"strings"
	"sync"
	"time"
)

var retried int // obligations discharged only by the second-opinion run

func isKnownFinding(verif, prop, name string) bool {
	var kf KnownFindings
	if data, err := os.ReadFile(filepath.Join(verif, "known_findings.json")); err == nil {
		json.Unmarshal(data, &kf)
	}
	for _, k := range kf.Findings {
		if k.Property == prop && k.Obligation == name {
			return true
		}
	}
	return false
}

// obligation classes that decide a property (default: all classes)
var propClasses = map[string][]string{"C15": {"PROT", "LOCK", "THREAD", "WG"}}

type KnownFindings struct {
	Findings []KnownFinding `json:"findings"`
	Fixed    []string       `json:"fixed"`
}
type KnownFinding struct {
	Property   string `json:"property"`
	Obligation string `json:"obligation"`
	What       string `json:"what"`
	Replay     string `json:"replay,omitempty"`
}

func hasTag(tags []string, id string) bool {
	for _, t := range tags {
		if t == id {
			return true
		}
	}
	return false
}

// functions relevant to a property: contracts carrying the tag anywhere
func functionsFor(P *Program, db *ContractDB, id string) []string {
	var out []string
	for name, c := range db.funcs {
		if c.Lemma {
			continue
		}
		use := hasTag(c.Tags, id) || hasTag(c.SafeTags, id)
		for _, q := range c.Ensures {
			if hasTag(q.Tags, id) {
				use = true
			}
		}
		// a pre-condition clause tagged with the property puts an obligation on every caller:
		// callers are checked under this property as well (otherwise nobody would prove it)
		if !use && !c.Trusted && P != nil && P.funcs[name] != nil && callsTaggedRequires(P, db, P.funcs[name], id, map[*ssa.Function]bool{}) {
			use = true
		}
		if use && !c.Trusted {
			out = append(out, name)
		}
	}
	for name, c := range db.methods {
		if hasTag(c.Tags, id) || hasTag(c.SafeTags, id) {
			out = append(out, "method "+name)
		}
	}
	for name, c := range db.ftypes {
		if hasTag(c.Tags, id) || hasTag(c.SafeTags, id) {
			out = append(out, "functype "+name)
		}
	}
	sort.Strings(out)
	return out
}

// verifyMethodImpls checks every implementation (in the two packages) of an
// interface method against the contract declared for the interface method.
func verifyMethodImpls(P *Program, db *ContractDB, key string, timeout int) []*FnResult {
	c := db.methods[key]
	i := strings.LastIndex(key, ".")
	j := strings.Index(key, ".")
	pkgName, ifName, mName := key[:j], key[j+1:i], key[i+1:]
	pkgPath := pkgGldap
	if pkgName == "testdirectory" {
		pkgPath = pkgTD
	}
	var out []*FnResult
	obj := P.tpkgs[pkgPath].Scope().Lookup(ifName)
	if obj == nil {
		return []*FnResult{{Fn: "method " + key, Errors: []string{"interface not found"}}}
	}
	iface, ok := obj.Type().Underlying().(*types.Interface)
	if !ok {
		return []*FnResult{{Fn: "method " + key, Errors: []string{"not an interface"}}}
	}
	for _, T := range P.ownTypes {
		if _, isI := T.Underlying().(*types.Interface); isI {
			continue
		}
		for _, TT := range []types.Type{types.NewPointer(T)} {
			if !types.Implements(TT, iface) {
				continue
			}
			ms := P.prog.MethodSets.MethodSet(TT)
			sel := ms.Lookup(P.tpkgs[pkgPath], mName)
			if sel == nil {
				continue
			}
			fn := P.prog.MethodValue(sel)
			if fn == nil || len(fn.Blocks) == 0 {
				continue
			}
			cc := *c
			cc.Name = "method " + key + " implemented by " + TT.String()
			r := verifyFunction(P, db, fn, &cc, verifyOpts{timeoutMs: timeout, recvIface: obj.Type()}, nil)
			r.Fn = shortName(fn) + " (refines " + key + ")"
			out = append(out, r)
			break
		}
	}
	if len(out) == 0 {
		out = append(out, &FnResult{Fn: "method " + key, Errors: []string{"no implementation found"}})
	}
	return out
}

func cmdWorker(args []string) {
	fs := flag.NewFlagSet("worker", flag.ExitOnError)
	timeout := fs.Int("timeout", 5000, "ms")
	out := fs.String("out", "", "output json")
	repo := fs.String("repo", "/repo", "")
	fs.Parse(args)
	if os.Getenv("GOVC_NO_REPLAY") == "" {
		globalCexHook = replayHook
		replayRepo = *repo
	}
	P, err := loadProgram(*repo)
	must(err)
	db, err := loadContracts(P, *repo)
	must(err)
	var results []*FnResult
	for _, name := range fs.Args() {
		if strings.HasPrefix(name, "method ") {
			results = append(results, verifyMethodImpls(P, db, strings.TrimPrefix(name, "method "), *timeout)...)
			continue
		}
		if strings.HasPrefix(name, "functype ") {
			results = append(results, verifyFuncTypeImpls(P, db, strings.TrimPrefix(name, "functype "), *timeout)...)
			continue
		}
		fn := P.funcs[name]
		c := db.funcs[name]
		if fn == nil || c == nil {
			results = append(results, &FnResult{Fn: name, Errors: []string{"contract names a function that does not exist (renamed or removed?)"}})
			continue
		}
		shapes := shapesOf(c)
		if len(shapes) == 0 {
			results = append(results, verifyFunction(P, db, fn, c, verifyOpts{timeoutMs: *timeout}, nil))
		} else {
			for _, s := range shapes {
				results = append(results, verifyFunction(P, db, fn, c, verifyOpts{timeoutMs: *timeout}, s))
			}
		}
	}
	b, _ := json.Marshal(results)
	must(os.WriteFile(*out, b, 0o644))
}

func cmdCheck(args []string) {
	fs := flag.NewFlagSet("check", flag.ExitOnError)
	prop := fs.String("prop", "", "property id")
	tier := fs.String("tier", "quick", "quick|thorough")
	repo := fs.String("repo", "/repo", "")
	verif := fs.String("verif", "/verif", "")
	workers := fs.Int("workers", 10, "")
	noEvidence := fs.Bool("no-evidence", false, "do not write evidence / replays (selftest mode)")
	replaysTo := fs.String("replays", "", "write replay files below this directory (also with -no-evidence)")
	fs.Parse(args)
	t0 := time.Now()
	seed := 0
	if s := os.Getenv("VERIF_SEED"); s != "" {
		seed, _ = strconv.Atoi(s)
	}
	timeout := 5000
	if *tier == "thorough" {
		timeout = 30000
	}
	P, err := loadProgram(*repo)
	if err != nil {
		fmt.Printf("VIOLATION property=%s replay=%s/replays/%s/load-error.txt no-failing-input-found\n", *prop, *verif, *prop)
		os.MkdirAll(filepath.Join(*verif, "replays", *prop), 0o755)
		os.WriteFile(filepath.Join(*verif, "replays", *prop, "load-error.txt"), []byte("the repository does not load/type-check with -tags verif:\n"+err.Error()+"\n"), 0o644)
		os.Exit(1)
	}
	db, err := loadContracts(P, *repo)
	if err != nil {
		fmt.Println("govc: contract file error:", err)
		fmt.Printf("VIOLATION property=%s replay=%s/replays/%s/contract-error.txt no-failing-input-found\n", *prop, *verif, *prop)
		os.MkdirAll(filepath.Join(*verif, "replays", *prop), 0o755)
		os.WriteFile(filepath.Join(*verif, "replays", *prop, "contract-error.txt"), []byte(err.Error()+"\n"), 0o644)
		os.Exit(1)
	}
	fns := functionsFor(P, db, *prop)
	if len(fns) == 0 {
		fmt.Println("govc: no function carries tag", *prop)
		os.Exit(2)
	}
	// distribute over worker processes
	nw := *workers
	if nw > len(fns) {
		nw = len(fns)
	}
	batches := make([][]string, nw)
	for i, f := range fns {
		batches[i%nw] = append(batches[i%nw], f)
	}
	scratch := os.Getenv("VERIF_SCRATCH")
	if scratch == "" {
		scratch = fmt.Sprintf("/var/tmp/govc.%d", os.Getpid())
	}
	os.MkdirAll(scratch, 0o755)
	defer os.RemoveAll(scratch)
	self, _ := os.Executable()
	var wg sync.WaitGroup
	var mu sync.Mutex
	var results []*FnResult
	for i, b := range batches {
		wg.Add(1)
		go func(i int, b []string) {
			defer wg.Done()
			out := filepath.Join(scratch, fmt.Sprintf("w%d.json", i))
			a := append([]string{"worker", "-timeout", strconv.Itoa(timeout), "-out", out, "-repo", *repo}, b...)
			cmd := exec.Command(self, a...)
			cmd.Stderr = os.Stderr
			cmd.Env = append(os.Environ(), "GOVC_PROP="+*prop)
			if cls, ok := propClasses[*prop]; ok {
				cmd.Env = append(cmd.Env, "GOVC_CLASSES="+strings.Join(cls, ","))
			}
			if *tier == "thorough" {
				cmd.Env = append(cmd.Env, "GOVC_CROSSCHECK=1")
			}
			err := cmd.Run()
			var rs []*FnResult
			if data, e2 := os.ReadFile(out); e2 == nil {
				json.Unmarshal(data, &rs)
			}
			if err != nil || len(rs) == 0 {
				for _, f := range b {
					rs = append(rs, &FnResult{Fn: f, Errors: []string{fmt.Sprintf("worker failed: %v", err)}})
				}
			}
			mu.Lock()
			results = append(results, rs...)
			mu.Unlock()
		}(i, b)
	}
	wg.Wait()
	// second opinion: a function with an undecided obligation (or a worker
	// failure) is verified once more by a fresh process, nothing else running;
	// an obligation discharged in either run is discharged (each run is a proof
	// attempt of its own). This keeps a loaded machine from turning a slow proof
	// into an alarm; a real violation fails twice.
	{
		var again []string
		seen := map[string]bool{}
		for _, r := range results {
			bad := len(r.Errors) > 0
			for _, o := range r.Obligs {
				if o.Failed+o.Undec > 0 && !isKnownFinding(*verif, *prop, o.Name) {
					bad = true
				}
			}
			if bad && !seen[r.Fn] {
				seen[r.Fn] = true
				again = append(again, r.Fn)
			}
		}
		if len(again) > 0 && len(again) <= 12 {
			out := filepath.Join(scratch, "retry.json")
			a := append([]string{"worker", "-timeout", strconv.Itoa(timeout), "-out", out, "-repo", *repo}, again...)
			cmd := exec.Command(self, a...)
			cmd.Stderr = os.Stderr
			cmd.Env = append(os.Environ(), "GOVC_NO_LASTRESORT=1", "GOVC_NO_REPLAY=1", "GOVC_PROP="+*prop)
			if cls, ok := propClasses[*prop]; ok {
				cmd.Env = append(cmd.Env, "GOVC_CLASSES="+strings.Join(cls, ","))
			}
			cmd.Run()
			var rs []*FnResult
			if data, e2 := os.ReadFile(out); e2 == nil {
				json.Unmarshal(data, &rs)
			}
			second := map[string]*FnResult{}
			for _, r := range rs {
				second[r.Fn+"|"+r.Shape] = r
			}
			for _, r := range results {
				r2 := second[r.Fn+"|"+r.Shape]
				if r2 == nil || len(r2.Errors) > 0 {
					continue
				}
				ok2 := map[string]*Oblig{}
				for _, o := range r2.Obligs {
					if o.Failed+o.Undec == 0 {
						ok2[o.Name] = o
					}
				}
				if len(r.Errors) > 0 {
					*r = *r2
					retried++
					continue
				}
				for i, o := range r.Obligs {
					if o.Failed+o.Undec > 0 {
						if o2, ok := ok2[o.Name]; ok {
							r.Obligs[i] = o2
							retried++
						}
					}
				}
			}
		}
	}
	results = append(results, writeOnlyResults(P, db, *prop)...)
	results = append(results, callOnlyResults(P, db, *prop)...)
	sort.Slice(results, func(i, j int) bool { return results[i].Fn+results[i].Shape < results[j].Fn+results[j].Shape })

	// known findings
	var kf KnownFindings
	if data, err := os.ReadFile(filepath.Join(*verif, "known_findings.json")); err == nil {
		json.Unmarshal(data, &kf)
	}
	type agg struct {
		o     *Oblig
		shape string
	}
	var all []agg
	var errors []string
	perClass := map[string]int{}
	timeBy := map[string]float64{}
	var cross [3]int
	paths, checks := 0, 0
	inlined := map[string]bool{}
	usedExt := map[string]bool{}
	usedCtr := map[string]bool{}
	var vac []string
	for _, r := range results {
		for _, e := range r.Errors {
			errors = append(errors, r.Fn+": "+e)
		}
		for _, o := range r.Obligs {
			if !hasTag(o.Tags, *prop) && o.Class != "VACUITY" && o.Class != "BUDGET" && o.Class != "UNWIND" {
				continue
			}
			// a lockset property is decided by the lock obligations alone: the
			// functional obligations of the same functions belong to their own properties
			if cls, ok := propClasses[*prop]; ok && o.Class != "VACUITY" && o.Class != "UNWIND" && o.Class != "BUDGET" {
				keep := false
				for _, c := range cls {
					if strings.HasPrefix(o.Class, c) {
						keep = true
					}
				}

				if !keep {
					continue
				}
			}
			all = append(all, agg{o, r.Shape})
			perClass[o.Class]++
		}
		for k, v := range r.TimeBy {
			timeBy[k] += v
		}
		for i := range cross {
			cross[i] += r.Cross[i]
		}
		paths += r.Paths
		checks += r.Checks
		for _, x := range r.Inlined {
			inlined[x] = true
		}
		for _, x := range r.UsedExt {
			usedExt[x] = true
		}
		for _, x := range r.UsedCtr {
			usedCtr[x] = true
		}
		vac = append(vac, r.Fn+ifs(r.Shape != "", "["+r.Shape+"]", "")+": "+r.Vacuity)
	}
	discharged := 0
	violations := 0
	byBackend := map[string]int{}
	var knownMatched []string
	var undecided []string
	var samples []interface{}
	replayDir := filepath.Join(*verif, "replays", *prop)
	writeReplays := !*noEvidence
	if *replaysTo != "" {
		replayDir = filepath.Join(*replaysTo, *prop)
		writeReplays = true
	}
	if writeReplays {
		os.RemoveAll(replayDir)
	}
	type viol struct{ line string }
	var lines []string
	names := map[string]bool{}
	for _, a := range all {
		o := a.o
		full := o.Name + ifs(a.shape != "", " ["+a.shape+"]", "")
		names[full] = true
		if o.Failed+o.Undec == 0 {
			discharged++
			for k, v := range o.By {
				byBackend[k] += v
			}
			if len(samples) < 8 && (o.Class == "POST" || o.Class == "SAFE.assert" || o.Class == "INV.keep" || o.Class == "PRE" || len(samples) < 3) {
				samples = append(samples, map[string]interface{}{"obligation": full, "class": o.Class, "path_instances": o.Inst, "solver": o.By, "secs": round3(o.Secs)})
			}
			continue
		}
		matched := false
		for _, k := range kf.Findings {
			if k.Property == *prop && k.Obligation == o.Name {
				matched = true
				msg := fmt.Sprintf("KNOWN-FINDING: property=%s %s (%s)", *prop, k.What, o.Name)
				lines = append(lines, msg)
				knownMatched = append(knownMatched, o.Name)
			}
		}
		if matched {
			continue
		}
		violations++
		undecided = append(undecided, full)
		h := sha1.Sum([]byte(full))
		rp := filepath.Join(replayDir, fmt.Sprintf("%x.txt", h[:6]))
		tail := ""
		body := "obligation: " + full + "\nclass: " + o.Class + "\nfunction: " + o.Fn + "\nfirst site: " + o.FirstPos + "\npath instances: " + fmt.Sprint(o.Inst) + " (sat " + fmt.Sprint(o.Failed) + ", undecided " + fmt.Sprint(o.Undec) + ")\nsolver: " + o.Detail + "\n"
		if o.Cex != nil && o.Cex.Reproduced {
			body += "\ncounterexample replayed on the real code: REPRODUCED\n" + o.Cex.Text + "\n"
		} else {
			tail = " no-failing-input-found"
			if o.Cex != nil {
				body += "\ncounterexample candidate (not reproduced):\n" + o.Cex.Text + "\n"
			}
		}
		body += "\n--- SMT script of the failed obligation ---\n" + o.Script
		if writeReplays {
			os.MkdirAll(replayDir, 0o755)
			os.WriteFile(rp, []byte(body), 0o644)
		}
		lines = append(lines, fmt.Sprintf("VIOLATION property=%s replay=%s%s", *prop, rp, tail))
	}
	for i, e := range errors {
		violations++
		rp := filepath.Join(replayDir, fmt.Sprintf("error-%d.txt", i))
		if writeReplays {
			os.MkdirAll(replayDir, 0o755)
			os.WriteFile(rp, []byte("the function could not be verified (fail closed):\n"+e+"\n"), 0o644)
		}
		lines = append(lines, fmt.Sprintf("VIOLATION property=%s replay=%s no-failing-input-found", *prop, rp))
	}
	// baseline: obligation names that discharged on the unchanged tree
	basePath := filepath.Join(*verif, "baseline", *prop+".obligations")
	missing := 0
	if data, err := os.ReadFile(basePath); err == nil {
		base := strings.Split(strings.TrimSpace(string(data)), "\n")
		for _, b := range base {
			if b != "" && !names[b] {
				missing++
			}
		}
		if len(base) > 0 && float64(len(all)) < 0.9*float64(len(base)) {
			violations++
			rp := filepath.Join(replayDir, "vacuity-obligation-count.txt")
			if writeReplays {
				os.MkdirAll(replayDir, 0o755)
				os.WriteFile(rp, []byte(fmt.Sprintf("only %d obligations generated, baseline has %d: code under contract disappeared\n", len(all), len(base))), 0o644)
			}
			lines = append(lines, fmt.Sprintf("VIOLATION property=%s replay=%s no-failing-input-found", *prop, rp))
		}
	}
	if os.Getenv("GOVC_WRITE_BASELINE") != "" && violations == 0 {
		var ns []string
		for n := range names {
			ns = append(ns, n)
		}
		sort.Strings(ns)
		os.MkdirAll(filepath.Dir(basePath), 0o755)
		os.WriteFile(basePath, []byte(strings.Join(ns, "\n")+"\n"), 0o644)
	}
	for _, l := range lines {
		fmt.Println(l)
	}
	wall := time.Since(t0).Seconds()
	extra := ""
	if retried > 0 {
		extra = fmt.Sprintf(" (%d discharged only by the second-opinion run)", retried)
	}
	fmt.Printf("govc: property %s tier %s: %d functions, %d obligations, %d discharged, %d known findings, %d violations, %.1fs%s\n", *prop, *tier, len(results), len(all), discharged, len(knownMatched), violations, wall, extra)
	if !*noEvidence {
		var assumptions []string
		var ext []string
		for k := range usedExt {
			ext = append(ext, k)
		}
		sort.Strings(ext)
		for _, k := range ext {
			doc := externDoc[k]
			if doc == "" {
				doc = "as written in the contract file (extern)"
			}
			assumptions = append(assumptions, "trusted contract of "+k+": "+doc)
		}
		for _, s := range db.scan {
			assumptions = append(assumptions, "contract file: "+s)
		}
		assumptions = append(assumptions,
			"A-ARITH: 64-bit integer + - * treated as mathematical; conversions and narrower arithmetic are exact two's complement; GOARCH=amd64",
			"A-FRESH: freshly allocated memory is unconstrained, so its initial contents may be assumed (zeroing, copies into new backing arrays)",
			"A-GOVC: the VC generator, go/ssa (naive form), go/types and the SMT solvers are trusted",
			"termination is not proved",
		)
		assumptions = append(assumptions, "A-MODULAR: obligations of the verified functions that carry other properties' tags are taken as assumptions in this run; each is proved by the check of its own property (all 19 claimed properties are checked)")
		for _, wo := range db.writeonly {
			if hasTag(wo.Tags, *prop) {
				assumptions = append(assumptions, "A-SAFEGO (writeonly "+wo.Field+"): decided by a scan of every store and escaping field address in the functions of the two own packages, not by a solver; writes through unsafe or reflect are not modelled (neither package imports them); test files are not part of the scan")
			}
		}
		for _, co := range db.callonly {
			if hasTag(co.Tags, *prop) {
				assumptions = append(assumptions, "A-SAFEGO (callonly "+co.Text+"): decided by a scan of every call site in the functions of the two own packages, not by a solver; the list of functions is hand-written, calls through function values or reflection are not seen")
			}
		}
		for _, cg := range db.callguards {
			if hasTag(cg.Tags, *prop) {
				assumptions = append(assumptions, "A-GUARDLIST (callguard "+cg.Text+"): the list of external functions that wait for a peer is hand-written; a blocking function missing from the list is not guarded")
			}
		}
		if cls, ok := propClasses[*prop]; ok {
			assumptions = append(assumptions, "this property is decided by the obligation classes "+strings.Join(cls, ", ")+" only; the functional obligations (POST, PRE other than lock ownership, INV, FRAME, SAFE) of the same functions are assumptions here")
		}
		for k, doc := range externDoc {
			_ = k
			_ = doc
		}
		assumptions = append(assumptions, propertyAssumptions[*prop]...)
		var inl, ctr []string
		for k := range inlined {
			inl = append(inl, k)
		}
		for k := range usedCtr {
			ctr = append(ctr, k)
		}
		sort.Strings(inl)
		sort.Strings(ctr)
		ev := map[string]interface{}{
			"property_id": *prop,
			"tier":        *tier,
			"seed":        seed,
			"level":       "proof",
			"wall_s":      round3(wall),
			"violations":  violations,
			"assumptions": assumptions,
			"coverage": map[string]interface{}{
				"obligations":                          len(all) - len(knownMatched),
				"obligations_including_known_findings": len(all),
				"discharged":                           discharged,
				"checker_cmd":                          "/verif/check " + *prop + " --tier " + *tier,
				"trusted_base":                         append([]string{"z3 5.1.0 (z3-new), z3 4.8.12, cvc5 1.0.3", "golang.org/x/tools v0.29.0 go/ssa naive form", "govc VC generator (/verif/govc)"}, ext...),
				"samples":                              samples,
				"functions_under_contract":             fns,
				"functions_inlined":                    inl,
				"callee_contracts_used":                ctr,
				"per_class_counts":                     perClass,
				"solver_time_s":                        timeBy,
				"path_instances_discharged_by_backend": byBackend,
				"obligations_discharged_by_second_run": retried,
				"second_solver_crosscheck":             map[string]interface{}{"tier": "thorough only", "solver": "z3 4.8.12 on the stand-alone script of instances proved by z3 5.1.0 (first 400 per function run)", "agree": cross[0], "disagree": cross[1], "undecided_or_timeout": cross[2]},
				"solver_checks":                        checks,
				"paths":                                paths,
				"vacuity":                              vac,
				"known_findings_matched":               knownMatched,
				"not_discharged":                       undecided,
				"baseline_missing":                     missing,
				"errors":                               errors,
			},
		}
		os.MkdirAll(filepath.Join(*verif, "evidence"), 0o755)
		b, _ := json.MarshalIndent(ev, "", " ")
		os.WriteFile(filepath.Join(*verif, "evidence", *prop+".json"), b, 0o644)
	}
	if violations > 0 {
		os.RemoveAll(scratch) // the deferred removal does not run on os.Exit
		os.Exit(1)
	}
}

func round3(f float64) float64 { return float64(int(f*1000)) / 1000 }

var propertyAssumptions = map[string][]string{}

// shapesOf: every subset (in the listed order) of the option constructors named
// by the contract's `shapes` directive.
func shapesOf(c *Contract) []*Shape {
	if len(c.Shapes) == 0 {
		return nil
	}
	all := strings.Fields(strings.Join(c.Shapes, " "))
	var out []*Shape
	for mask := 0; mask < 1<<len(all); mask++ {
		sh := &Shape{All: all}
		for i, n := range all {
			if mask&(1<<i) != 0 {
				sh.Use = append(sh.Use, n)
			}
		}
		sh.Name = strings.Join(sh.Use, "+")
		if sh.Name == "" {
			sh.Name = "no-options"
		}
		out = append(out, sh)
	}
	return out
}

// verifyFuncTypeImpls checks every function literal of the two packages whose
// signature is that of the named function type against the type's contract.
func verifyFuncTypeImpls(P *Program, db *ContractDB, key string, timeout int) []*FnResult {
	c := db.ftypes[key]
	j := strings.Index(key, ".")
	pkgPath := pkgGldap
	if key[:j] == "testdirectory" {
		pkgPath = pkgTD
	}
	obj := P.tpkgs[pkgPath].Scope().Lookup(key[j+1:])
	if obj == nil {
		return []*FnResult{{Fn: "functype " + key, Errors: []string{"type not found"}}}
	}
	sig, ok := obj.Type().Underlying().(*types.Signature)
	if !ok {
		return []*FnResult{{Fn: "functype " + key, Errors: []string{"not a function type"}}}
	}
	e := &Exec{P: P, db: db}
	var out []*FnResult
	for _, fn := range e.addrTaken() {
		if !types.Identical(fn.Signature, sig) || len(fn.Blocks) == 0 || fn.Pkg == nil || fn.Pkg.Pkg.Path() != pkgPath {
			continue
		}
		if strings.HasPrefix(fn.Name(), "Test") || strings.Contains(fn.String(), ".with") && strings.Contains(fn.String(), "Test") {
			continue
		}
		cc := *c
		if len(cc.Params) > 0 {
			cc.Params = cc.Params[1:] // the function value itself is not a parameter of the literal
		}
		cc.Name = "functype " + key + " implemented by " + shortName(fn)
		r := verifyFunction(P, db, fn, &cc, verifyOpts{timeoutMs: timeout}, nil)
		r.Fn = shortName(fn) + " (refines " + key + ")"
		out = append(out, r)
	}
	if len(out) == 0 {
		out = append(out, &FnResult{Fn: "functype " + key, Errors: []string{"no function literal of this type found"}})
	}
	return out
}

// writeOnlyResults decides the `writeonly` declarations tagged with prop: a package-wide frame
// condition ("field f of T is assigned only in these functions"). In safe Go a field is written
// only by a store through its field address or by a store of a whole T; every function of the two
// own packages (anonymous functions included) is scanned for such stores, and for field addresses
// that are used by anything but a load or a store (an escaping address could be written elsewhere).
func writeOnlyResults(P *Program, db *ContractDB, prop string) []*FnResult {
	var out []*FnResult
	for _, wo := range db.writeonly {
		if !hasTag(wo.Tags, prop) {
			continue
		}
		res := &FnResult{Fn: "(package frame) " + wo.Field, Vacuity: "n/a (syntactic frame rule)"}
		o := &Oblig{Name: "(package)/FRAME.field:writeonly " + wo.Text, Class: "FRAME.field", Fn: "(package)", Tags: wo.Tags, Inst: 1, By: map[string]int{}}
		res.Obligs = []*Oblig{o}
		out = append(out, res)
		parts := strings.Split(wo.Field, ".")
		var T types.Type
		if len(parts) == 3 {
			for _, tp := range P.tpkgs {
				if tp.Name() == parts[0] {
					if obj := tp.Scope().Lookup(parts[1]); obj != nil {
						T = obj.Type()
					}
				}
			}
		}
		idx := -1
		if T != nil {
			idx = fieldIndex(T, parts[2])
		}
		if idx < 0 {
			res.Errors = append(res.Errors, "writeonly: unknown field "+wo.Field)
			continue
		}
		for fn := range wo.By {
			if P.funcs[fn] == nil {
				res.Errors = append(res.Errors, "writeonly "+wo.Field+": no function "+fn)
			}
		}
		names := make([]string, 0, len(P.funcs))
		for n := range P.funcs {
			names = append(names, n)
		}
		sort.Strings(names)
		var bad []string
		scanned, stores := 0, 0
		for _, n := range names {
			fn := P.funcs[n]
			scanned++
			for _, b := range fn.Blocks {
				for _, ins := range b.Instrs {
					why := ""
					switch x := ins.(type) {
					case *ssa.FieldAddr:
						pt, ok := under(x.X.Type()).(*types.Pointer)
						if !ok || !types.Identical(pt.Elem(), T) || x.Field != idx {
							continue
						}
						for _, r := range *x.Referrers() {
							switch u := r.(type) {
							case *ssa.Store:
								if u.Addr == x {
									stores++
									why = "assigns " + wo.Field
								} else {
									why = "stores the address of " + wo.Field
								}
							case *ssa.UnOp, *ssa.DebugRef:
							default:
								why = "takes the address of " + wo.Field
							}
						}
					case *ssa.Store:
						if pt, ok := under(x.Addr.Type()).(*types.Pointer); ok && types.Identical(pt.Elem(), T) {
							stores++
							why = "assigns a whole " + parts[0] + "." + parts[1]
						}
					}
					if why != "" && !wo.By[n] {
						bad = append(bad, n+": "+why+" | "+P.srcLine(ins.Pos()))
						if o.FirstPos == "" {
							o.FirstPos = P.fset.Position(ins.Pos()).String()
						}
					}
				}
			}
		}
		o.Detail = fmt.Sprintf("scanned %d functions of the own packages, %d stores to the field; offending: %d\n%s", scanned, stores, len(bad), strings.Join(bad, "\n"))
		if len(bad) > 0 {
			o.Failed = 1
		} else {
			o.By["syntactic-frame-rule"] = 1
		}
	}
	return out
}

func requiresTagged(c *Contract, id string) bool {
	if c == nil {
		return false
	}
	for _, q := range c.Requires {
		if hasTag(q.Tags, id) {
			return true
		}
	}
	return false
}

// callsTaggedRequires: fn (or an own function without a contract that it calls, which the engine
// inlines) calls something whose contract has a `requires[id]` clause.
func callsTaggedRequires(P *Program, db *ContractDB, fn *ssa.Function, id string, seen map[*ssa.Function]bool) bool {
	if seen[fn] {
		return false
	}
	seen[fn] = true
	for _, b := range fn.Blocks {
		for _, ins := range b.Instrs {
			var cc *ssa.CallCommon
			switch x := ins.(type) {
			case *ssa.Call:
				cc = &x.Call
			case *ssa.Defer:
				cc = &x.Call
			case *ssa.Go:
				cc = &x.Call
			default:
				continue
			}
			if cc.IsInvoke() {
				key := ifaceKey(cc.Value.Type()) + "." + cc.Method.Name()
				short := strings.ReplaceAll(strings.ReplaceAll(key, pkgTD, "testdirectory"), pkgGldap, "gldap")
				if requiresTagged(db.methods[short], id) || requiresTagged(db.externs["iface:"+key], id) {
					return true
				}
				continue
			}
			callee := cc.StaticCallee()
			if callee == nil {
				if mc, ok := cc.Value.(*ssa.MakeClosure); ok {
					callee, _ = mc.Fn.(*ssa.Function)
				}
			}
			if callee == nil {
				// call of a function value: the contract of its named function type
				key := ifaceKey(cc.Value.Type())
				short := strings.ReplaceAll(strings.ReplaceAll(key, pkgTD, "testdirectory"), pkgGldap, "gldap")
				if c, ok := db.ftypes[short]; ok && (requiresTagged(c, id) || hasTag(c.NoLocks, id)) {
					return true
				}
				continue
			}
			if callee.Pkg != nil && ownPkg(callee.Pkg.Pkg) {
				if c, ok := db.funcs[shortName(callee)]; ok {
					if requiresTagged(c, id) || hasTag(c.NoLocks, id) {
						return true
					}
					continue
				}
				if callsTaggedRequires(P, db, callee, id, seen) {
					return true
				}
				continue
			}
			if requiresTagged(db.externs[callee.String()], id) {
				return true
			}
		}
	}
	return false
}

// callOnlyResults decides the `callonly` declarations tagged with prop by scanning every call,
// defer and go instruction of the own packages.
func callOnlyResults(P *Program, db *ContractDB, prop string) []*FnResult {
	var out []*FnResult
	for _, co := range db.callonly {
		if !hasTag(co.Tags, prop) {
			continue
		}
		res := &FnResult{Fn: "(package frame) callonly " + co.Text, Vacuity: "n/a (syntactic frame rule)"}
		o := &Oblig{Name: "(package)/FRAME.calls:callonly " + co.Text, Class: "FRAME.calls", Fn: "(package)", Tags: co.Tags, Inst: 1, By: map[string]int{}}
		res.Obligs = []*Oblig{o}
		out = append(out, res)
		for fn := range co.By {
			if P.funcs[fn] == nil {
				res.Errors = append(res.Errors, "callonly: no function "+fn)
			}
		}
		names := make([]string, 0, len(P.funcs))
		for n := range P.funcs {
			names = append(names, n)
		}
		sort.Strings(names)
		var bad []string
		scanned, sites := 0, 0
		for _, n := range names {
			fn := P.funcs[n]
			scanned++
			for _, b := range fn.Blocks {
				for _, ins := range b.Instrs {
					var cc *ssa.CallCommon
					switch x := ins.(type) {
					case *ssa.Call:
						cc = &x.Call
					case *ssa.Defer:
						cc = &x.Call
					case *ssa.Go:
						cc = &x.Call
					default:
						continue
					}
					name := ""
					if cc.IsInvoke() {
						name = "iface:" + ifaceKey(cc.Value.Type()) + "." + cc.Method.Name()
					} else if callee := cc.StaticCallee(); callee != nil {
						name = callee.String()
					}
					if !co.Names[name] {
						continue
					}
					sites++
					if !co.By[n] {
						bad = append(bad, n+": calls "+name+" | "+P.srcLine(ins.Pos()))
						if o.FirstPos == "" {
							o.FirstPos = P.fset.Position(ins.Pos()).String()
						}
					}
				}
			}
		}
		o.Detail = fmt.Sprintf("scanned %d functions of the own packages, %d call sites of the listed functions; offending: %d\n%s", scanned, sites, len(bad), strings.Join(bad, "\n"))
		if len(bad) > 0 {
			o.Failed = 1
		} else if sites == 0 {
			res.Errors = append(res.Errors, "callonly "+co.Text+": no call site found at all (vacuous declaration)")
		} else {
			o.By["syntactic-frame-rule"] = 1
		}
	}
	return out
}
