package main

import (
	"fmt"
	"go/token"
	"go/types"
	"os"
	"sort"
	"strings"

	"golang.org/x/tools/go/packages"
	"golang.org/x/tools/go/ssa"
	"golang.org/x/tools/go/ssa/ssautil"
)

const (
	pkgGldap = "github.com/jimlambrt/gldap"
	pkgTD    = "github.com/jimlambrt/gldap/testdirectory"
)

type Program struct {
	fset   *token.FileSet
	pkgs   []*packages.Package
	prog   *ssa.Program
	spkgs  map[string]*ssa.Package
	tpkgs  map[string]*types.Package
	funcs  map[string]*ssa.Function // by short name, own packages only
	allFns map[*ssa.Function]bool
	srcs   map[string][]string // file -> lines
	// named types of own packages for closed-world dispatch
	ownTypes []types.Type
}

func ownPkg(p *types.Package) bool {
	return p != nil && (p.Path() == pkgGldap || p.Path() == pkgTD)
}

// shortName: stable function key used in contract files:
// gldap.(*packet).requestMessageID, gldap.newRequest, testdirectory.(*Directory).handleBind$1
func shortName(f *ssa.Function) string {
	s := f.String()
	s = strings.ReplaceAll(s, pkgTD, "testdirectory")
	s = strings.ReplaceAll(s, pkgGldap, "gldap")
	return s
}

func loadProgram(dir string) (*Program, error) {
	cfg := &packages.Config{Mode: packages.LoadAllSyntax, Dir: dir, BuildFlags: []string{"-tags", "verif"}, Env: append(os.Environ(), "GOFLAGS=-mod=mod", "GOPROXY=off", "GOSUMDB=off", "GOTOOLCHAIN=local")}
	pkgs, err := packages.Load(cfg, pkgGldap, pkgTD)
	if err != nil {
		return nil, err
	}
	if packages.PrintErrors(pkgs) > 0 {
		return nil, fmt.Errorf("package load errors")
	}
	prog, spkgs := ssautil.AllPackages(pkgs, ssa.NaiveForm|ssa.GlobalDebug)
	prog.Build()
	P := &Program{fset: prog.Fset, pkgs: pkgs, prog: prog, spkgs: map[string]*ssa.Package{}, tpkgs: map[string]*types.Package{}, funcs: map[string]*ssa.Function{}, srcs: map[string][]string{}}
	for i, p := range pkgs {
		P.spkgs[p.PkgPath] = spkgs[i]
		P.tpkgs[p.PkgPath] = p.Types
	}
	P.allFns = ssautil.AllFunctions(prog)
	for f := range P.allFns {
		if f.Pkg != nil && ownPkg(f.Pkg.Pkg) {
			P.funcs[shortName(f)] = f
		}
	}
	for _, p := range pkgs {
		sc := p.Types.Scope()
		names := sc.Names()
		sort.Strings(names)
		for _, n := range names {
			if tn, ok := sc.Lookup(n).(*types.TypeName); ok {
				P.ownTypes = append(P.ownTypes, tn.Type())
			}
		}
	}
	return P, nil
}

func (P *Program) srcLine(pos token.Pos) string {
	if !pos.IsValid() {
		return ""
	}
	p := P.fset.Position(pos)
	lines, ok := P.srcs[p.Filename]
	if !ok {
		b, err := os.ReadFile(p.Filename)
		if err == nil {
			lines = strings.Split(string(b), "\n")
		}
		P.srcs[p.Filename] = lines
	}
	if p.Line-1 < len(lines) && p.Line >= 1 {
		s := strings.TrimSpace(lines[p.Line-1])
		if len(s) > 90 {
			s = s[:90]
		}
		return s
	}
	return ""
}

// ---- type helpers -----------------------------------------------------------

func under(t types.Type) types.Type { return t.Underlying() }

func isComposite(t types.Type) bool {
	switch under(t).(type) {
	case *types.Struct, *types.Array:
		return true
	}
	return false
}

func sortOf(t types.Type) Sort {
	switch u := under(t).(type) {
	case *types.Basic:
		switch {
		case u.Info()&types.IsBoolean != 0:
			return SBool
		case u.Info()&types.IsString != 0:
			return SStr
		case u.Info()&types.IsInteger != 0:
			return SInt
		case u.Kind() == types.UnsafePointer:
			return SInt
		case u.Kind() == types.UntypedNil:
			return SInt
		case u.Info()&types.IsFloat != 0:
			return SInt // floats are not modelled; values are opaque
		}
	case *types.Pointer, *types.Map, *types.Chan, *types.Signature:
		return SInt
	case *types.Slice:
		return SSlice
	case *types.Interface:
		return SIface
	}
	panic(unsupported("sortOf " + t.String()))
}

type unsupportedErr string

func unsupported(s string) unsupportedErr { return unsupportedErr(s) }

func typeKey(t types.Type) string {
	s := types.TypeString(t, func(p *types.Package) string { return p.Path() })
	s = strings.ReplaceAll(s, "|", "!")
	s = strings.ReplaceAll(s, "\\", "!")
	return s
}

// heap for scalar cells of Go type t
func cellHeap(t types.Type) (string, Sort) {
	return "Cell!" + typeKey(t), ArrSort(sortOf(t))
}

func fieldHeap(st types.Type, idx int) (string, Sort, *types.Var) {
	s := under(st).(*types.Struct)
	f := s.Field(idx)
	return "H!" + typeKey(st) + "." + f.Name(), ArrSort(sortOf(f.Type())), f
}

func fieldFa(st types.Type, idx int) string {
	s := under(st).(*types.Struct)
	return "fa!" + typeKey(st) + "." + s.Field(idx).Name()
}

// type ids for interface dynamic types
var tidTab = map[string]int{}
var tidTypes = map[int]types.Type{}

func tidOf(t types.Type) int {
	k := typeKey(t)
	if id, ok := tidTab[k]; ok {
		return id
	}
	id := len(tidTab) + 1
	tidTab[k] = id
	tidTypes[id] = t
	return id
}

func intRange(t types.Type) (lo, hi string, bits int, signed bool, ok bool) {
	b, isb := under(t).(*types.Basic)
	if !isb || b.Info()&types.IsInteger == 0 {
		return
	}
	ok = true
	switch b.Kind() {
	case types.Int8:
		return "-128", "127", 8, true, true
	case types.Int16:
		return "-32768", "32767", 16, true, true
	case types.Int32:
		return "-2147483648", "2147483647", 32, true, true
	case types.Int64, types.Int, types.UntypedInt, types.UntypedRune:
		return "-9223372036854775808", "9223372036854775807", 64, true, true
	case types.Uint8:
		return "0", "255", 8, false, true
	case types.Uint16:
		return "0", "65535", 16, false, true
	case types.Uint32:
		return "0", "4294967295", 32, false, true
	case types.Uint64, types.Uint, types.Uintptr:
		return "0", "18446744073709551615", 64, false, true
	}
	ok = false
	return
}

type types_Struct = types.Struct

func typesPointer(t types.Type) types.Type { return types.NewPointer(t) }

func fieldIndex(t types.Type, name string) int {
	s, ok := under(t).(*types.Struct)
	if !ok {
		return -1
	}
	for i := 0; i < s.NumFields(); i++ {
		if s.Field(i).Name() == name {
			return i
		}
	}
	return -1
}
