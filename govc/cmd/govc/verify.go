package main

import (
	"sort"
	"fmt"
	"os"
	"go/types"
	"runtime/debug"
	"strings"
	"time"

	"golang.org/x/tools/go/ssa"
)

const prelude = `(set-option :print-success false)
(set-option :smt.auto-config false)
(set-option :smt.mbqi false)
(declare-sort Str 0)
(declare-datatypes ((Slice 0)) (((mkslice (sarr Int) (soff Int) (slen Int) (scap Int)))))
(declare-datatypes ((Iface 0)) (((mkiface (itid Int) (iref Int) (iint Int) (ibool Bool) (istr Str)))))
(declare-fun el (Int Int) Int)
(declare-fun el_arr (Int) Int)
(declare-fun el_idx (Int) Int)
(declare-fun rkind (Int) Int)
(declare-fun rroot (Int) Int)
(declare-fun birth (Int) Int)
(declare-fun fnid (Int) Int)
(declare-fun gid (Int) Int)
(declare-fun s_len (Str) Int)
(declare-fun s_at (Str Int) Int)
(declare-fun s_id (Str) Int)
(declare-const str!empty Str)
(assert (forall ((a Int) (i Int)) (! (and (= (el_arr (el a i)) a) (= (el_idx (el a i)) i) (= (rkind (el a i)) 1)) :pattern ((el a i)))))
(assert (= (rkind 0) 0))
(assert (forall ((x Int)) (! (=> (= (rkind x) 1) (= x (el (el_arr x) (el_idx x)))) :pattern ((el_arr x)))))
(assert (forall ((a Int) (i Int)) (! (= (rroot (el a i)) (rroot a)) :pattern ((el a i)))))
(assert (forall ((x Int)) (! (=> (= (rkind x) 0) (= (rroot x) x)) :pattern ((rroot x)))))
(assert (forall ((s Str)) (! (>= (s_len s) 0) :pattern ((s_len s)))))
(assert (forall ((s Str)) (! (=> (= (s_len s) 0) (= s str!empty)) :pattern ((s_len s)))))
(assert (= (s_len str!empty) 0))
(assert (forall ((s Str) (i Int)) (! (and (<= 0 (s_at s i)) (<= (s_at s i) 255)) :pattern ((s_at s i)))))
`

type FnResult struct {
	Fn       string
	Obligs   []*Oblig
	Paths    int
	RetPaths int
	ExcPaths int
	Secs     float64
	TimeBy   map[string]float64
	Cross    [3]int // cross-check: agree, disagree, undecided
	Checks   int
	Inlined  []string
	UsedExt  []string
	UsedCtr  []string
	Errors   []string
	Vacuity  string
	Shape    string
}

type verifyOpts struct {
	recvIface types.Type
	timeoutMs int
	cexHook   func(e *Exec, st *State, o *Oblig) *Cex
	logSMT    string
}

// verifyFunction checks fn against its contract c (c may be a bare safety
// contract). shapeArgs, when non-nil, fixes the variadic option list.
func verifyFunction(P *Program, db *ContractDB, fn *ssa.Function, c *Contract, vo verifyOpts, shape *Shape) (res *FnResult) {
	t0 := time.Now()
	res = &FnResult{Fn: shortName(fn)}
	if shape != nil {
		res.Shape = shape.Name
	}
	sol, err := NewSolver("z3-new", prelude, vo.timeoutMs)
	if err != nil {
		res.Errors = append(res.Errors, "cannot start solver: "+err.Error())
		return
	}
	defer sol.Close()
	if vo.cexHook == nil {
		vo.cexHook = globalCexHook
	}
	e := &Exec{P: P, sol: sol, db: db, top: fn, topC: c, obligs: map[string]*Oblig{}, onceLv: []map[*Term]bool{{}}, witLv: [][]*Term{nil}, predLv: [][]*Term{nil}, inlined: map[string]bool{}, usedExt: map[string]bool{}, usedCtr: map[string]bool{}, loops: map[*ssa.Function]*LoopInfo{}, cexHook: vo.cexHook}
	e.curTags = c.Tags
	e.safeTags = c.SafeTags
	e.recvIface = vo.recvIface
	e.started = time.Now()
	// 150 s with the quick tier's 5 s limit per query, scaled with the limit (thorough: 30 s)
	e.wallBudget = time.Duration(30*vo.timeoutMs) * time.Millisecond
	if e.wallBudget < 150*time.Second {
		e.wallBudget = 150 * time.Second
	}
	if os.Getenv("GOVC_TRACE") != "" {
		fmt.Fprintf(os.Stderr, "VERIFY %s\n", shortName(fn))
	}
	if shape != nil {
		e.shape = shape.Name
		e.shapeObj = shape
	}
	defer func() {
		if r := recover(); r != nil {
			switch x := r.(type) {
			case unsupportedErr:
				res.Errors = append(res.Errors, "unsupported-construct: "+string(x))
			case specErr:
				res.Errors = append(res.Errors, "contract error: "+x.msg)
			default:
				stk := string(debug.Stack())
				if i := strings.Index(stk, "panic("); i >= 0 {
					stk = stk[i:]
				}
				if len(stk) > 700 {
					stk = stk[:700]
				}
				res.Errors = append(res.Errors, fmt.Sprintf("internal error: %v | %s", r, strings.ReplaceAll(stk, "\n", " ")))
			}
		}
		for _, n := range e.order {
			res.Obligs = append(res.Obligs, e.obligs[n])
		}
		res.Paths, res.RetPaths, res.ExcPaths = e.paths, e.retPaths, e.excPaths
		res.Secs = time.Since(t0).Seconds()
		res.TimeBy = sol.TimeBy
		res.Cross = [3]int{sol.CrossAgree, sol.CrossDisagree, sol.CrossUndecided}
		res.Checks = sol.Checks
		for k := range e.inlined {
			res.Inlined = append(res.Inlined, k)
		}
		for k := range e.usedExt {
			res.UsedExt = append(res.UsedExt, k)
		}
		for k := range e.usedCtr {
			res.UsedCtr = append(res.UsedCtr, k)
		}
	}()
	if len(fn.Blocks) == 0 {
		panic(unsupported("no body"))
	}
	st := &State{heaps: map[string]*Term{}, closures: map[*Term]*Closure{}}
	st.alloc = IntLit(0)
	fr := &Frame{fn: fn, env: map[ssa.Value]Val{}, locals: map[*ssa.Alloc]*LocalCell{}, blk: fn.Blocks[0], visits: map[int]int{}, inCut: map[int]bool{}}
	st.frames = []*Frame{fr}
	// symbolic inputs
	for _, p := range fn.Params {
		fr.env[p] = e.freshVal(st, "p."+p.Name(), p.Type())
	}
	for _, fv := range fn.FreeVars {
		// captured variable: an allocated cell
		r := Const(freshName("fv."+fv.Name()), SInt)
		e.assume(And(Gt(r, IntLit(0)), Eq(App("rkind", SInt, r), IntLit(0)), Allocd(st.alloc, r)))
		fr.env[fv] = r
	}
	if shape != nil {
		e.applyShape(st, fr, shape)
	}
	fr.entry = st.snapshot()
	// pre-condition
	ctx := e.entryCtx(st, fr)
	for _, r := range c.Requires {
		e.assume(ctx.evalBool(r.Expr))
	}
	for _, r := range c.Entry {
		e.assume(ctx.evalBool(r.Expr))
	}
	fr.entry = st.snapshot()
	// vacuity: the pre-condition must be satisfiable
	if !sol.Feasible() {
		res.Vacuity = "requires is unsatisfiable"
		if vo.recvIface != nil {
			res.Vacuity = "not covered by the interface contract's pre-condition (skipped)"
			return
		}
		e.fail(shortName(fn)+"/VACUITY:requires", "VACUITY", "pre-condition unsatisfiable")
		return
	}
	res.Vacuity = "requires satisfiable"
	e.run(st)
	if e.retPaths == 0 && c.Panics == "false" && len(res.Errors) == 0 {
		// cover check: at least one path must reach a normal return
		alive := false
		for _, o := range e.obligs {
			if o.Class == "INV.keep" {
				alive = true
			}
		}
		if !alive {
			e.fail(shortName(fn)+"/VACUITY:no-return-path", "VACUITY", "no path reaches a normal return")
		}
	}
	return
}

// entryCtx: spec context for requires (parameters = entry values)
func (e *Exec) entryCtx(st *State, fr *Frame) *SpecCtx {
	pkg := e.pkgOf(e.topC)
	if fr.fn.Pkg != nil {
		pkg = fr.fn.Pkg.Pkg
	}
	ctx := e.newSpecCtx(st, pkg, fr.entry)
	for _, p := range fr.fn.Params {
		ctx.vars[p.Name()] = &specVar{v: fr.env[p], t: p.Type()}
	}
	for _, fv := range fr.fn.FreeVars {
		fv := fv
		pt := fv.Type().Underlying().(*types.Pointer).Elem()
		cell := fr.env[fv]
		ctx.vars[fv.Name()] = &specVar{get: func(c *SpecCtx) (Val, types.Type) { return c.loadAt(cell, pt), pt }}
	}
	for k, v := range e.shapeVars {
		ctx.vars[k] = v
	}
	// method / functype contracts name their parameters themselves
	if fr.fn == e.top && e.topC != nil {
		for i, p := range e.topC.Params {
			if i < len(fr.fn.Params) {
				v, t := fr.env[fr.fn.Params[i]], fr.fn.Params[i].Type()
				if i == 0 && e.recvIface != nil {
					// interface-method contract: the first parameter is the interface value
					if _, isI := under(e.recvIface).(*types.Interface); isI {
						v = e.makeIface(st, t, v)
						t = e.recvIface
					}
				}
				ctx.vars[p.Name] = &specVar{v: v, t: t}
			}
		}
	}
	return ctx
}

// topReturn: normal exit of the function under verification
func (e *Exec) topReturn(st *State, fr *Frame, res Val) {
	e.paths++
	e.retPaths++
	c := e.topC
	ctx := e.entryCtx(st, fr)
	resultVars(ctx.vars, fr.fn.Signature, res)
	if len(c.Results) > 0 {
		list := []Val{res}
		if tv, ok := res.(TupleVal); ok {
			list = tv
		}
		for i, p := range c.Results {
			if i < len(list) {
				ctx.vars[p.Name] = &specVar{v: list[i], t: fr.fn.Signature.Results().At(i).Type()}
			}
		}
	}
	e.applySets(st, c, ctx)
	for _, q := range c.Ensures {
		// each clause is proved on its own: proved clauses are not kept as
		// assumptions (quantified lemmas make later queries unstable)
		g := ctx.evalBool(q.Expr)
		e.push()
		if len(q.Tags) > 0 {
			save := e.curTags
			e.curTags = q.Tags
			e.check(st, nil, "POST", nil, q.Text, g)
			e.curTags = save
		} else {
			e.check(st, nil, "POST", nil, q.Text, g)
		}
		e.pop()
	}
	for _, q := range c.Exits {
		e.check(st, nil, "EXIT", nil, q.Text, ctx.evalBool(q.Expr))
	}
	e.checkFrame(st, fr)
}

// topPanicExit: the function under verification exits by panicking
func (e *Exec) topPanicExit(st *State, fr *Frame) {
	e.paths++
	e.excPaths++
	c := e.topC
	ctx := e.entryCtx(st, fr)
	switch c.Panics {
	case "false":
		e.check(st, nil, "EXC", nil, "panics false: "+st.panicWhat, TFalse)
	case "when":
		// allowed only when the condition is false
		e.check(st, nil, "EXC", nil, "panics "+c.PanicsWhen.Text+": "+st.panicWhat, Not(ctx.evalBool(c.PanicsWhen.Expr)))
	}
	for _, q := range c.Exits {
		e.check(st, nil, "EXIT", nil, q.Text+" (panicking exit)", ctx.evalBool(q.Expr))
	}
}

// checkFrame: with an explicit modifies clause, every other heap that the body
// may write must be unchanged at exit.
func (e *Exec) checkFrame(st *State, fr *Frame) {
	c := e.topC
	if !c.HasModifies {
		return
	}
	declared := e.modOfContract(c, nil)
	if _, all := declared["*"]; all {
		return
	}
	var heapNames []string
	for name := range st.heaps {
		heapNames = append(heapNames, name)
	}
	sort.Strings(heapNames)
	for _, name := range heapNames {
		cur := st.heaps[name]
		if _, ok := declared[name]; ok || name == "*havoc*" || strings.HasPrefix(name, "G!") {
			continue
		}
		old := fr.entry.heap(name, cur.S)
		if old == cur {
			continue
		}
		// unchanged on every object allocated at entry
		x := BoundVar("x", SInt)
		body := Implies(e.allocAtEntry(fr, x), Eq(Select(cur, x), Select(old, x)))
		if !cur.S.IsArr() || !old.S.IsArr() {
			continue
		}
		e.check(st, nil, "FRAME", nil, "modifies only "+strings.Join(c.Modifies, ", ")+": "+name, Forall([]*Term{x}, body))
	}
}

func (e *Exec) allocAtEntry(fr *Frame, x *Term) *Term {
	// objects (and their sub-objects / elements) that existed at entry
	return Allocd(fr.entry.alloc, x)
}

func (e *Exec) applySpawn(st *State, fr *Frame, c *Contract, ctx *SpecCtx) {}

var globalCexHook func(e *Exec, st *State, o *Oblig) *Cex
