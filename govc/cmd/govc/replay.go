package main

// Counterexample extraction and replay (DESIGN §3.6).
//
// When an obligation is not discharged, the solver's (candidate) model is
// walked from the parameters of the function under verification through the
// heap *as it was at function entry*; the values found are turned into Go
// literals, and an in-package test that calls the real function with them is
// injected with `go test -overlay` (nothing is written to the repository).
// Packet trees are serialised by an encoder of our own and handed to the real
// ber.DecodePacketErr, so the input the function sees is one the BER reader
// really produces.

import (
	"encoding/hex"
	"encoding/json"
	"fmt"
	"go/types"
	"os"
	"os/exec"
	"path/filepath"
	"regexp"
	"sort"
	"strconv"
	"strings"
	"time"
)

type XVal struct {
	Kind   string           `json:"kind"`            // int bool string slice ptr iface struct nil opaque
	Type   string           `json:"type,omitempty"`  // Go type
	Int    string           `json:"int,omitempty"`
	Bool   bool             `json:"bool,omitempty"`
	Bytes  string           `json:"bytes,omitempty"` // hex
	Len    int              `json:"len,omitempty"`
	Ref    string           `json:"ref,omitempty"`
	Fields map[string]*XVal `json:"fields,omitempty"`
	Elems  []*XVal          `json:"elems,omitempty"`
	Dyn    *XVal            `json:"dyn,omitempty"`
	t      types.Type
}

var valRe = regexp.MustCompile(`\(- (\d+)\)|(-?\d+)|\b(true|false)\b`)

func (e *Exec) evalInt(t *Term) (int64, bool) {
	s := e.evalRaw(t)
	if os.Getenv("GOVC_TRACE") != "" {
		fmt.Fprintf(os.Stderr, "evalInt: %.300s\n", s)
	}
	// ((term value)) : take the last number
	i := strings.LastIndex(s, " ")
	if i < 0 {
		return 0, false
	}
	tail := strings.TrimRight(s[i+1:], ")")
	if strings.HasSuffix(strings.TrimRight(s, ")"), ")") || strings.Contains(s[max(0, len(s)-30):], "(- ") {
		if m := regexp.MustCompile(`\(- (\d+)\)\)*$`).FindStringSubmatch(s); m != nil {
			n, err := strconv.ParseInt(m[1], 10, 64)
			return -n, err == nil
		}
	}
	n, err := strconv.ParseInt(tail, 10, 64)
	if err != nil {
		return 0, false
	}
	return n, true
}

// evalRaw: model value of t; a declaration issued after check-sat discards the
// model, so an empty answer is retried after a fresh check-sat
func (e *Exec) evalRaw(t *Term) string {
	e.ensureDeclsQuiet(t)
	s := e.sol.Eval(t)
	if s == "" && !e.evalFrozen {
		e.sol.checkRaw(3000)
		s = e.sol.Eval(t)
	}
	return s
}

func (e *Exec) evalBool(t *Term) (bool, bool) {
	s := e.evalRaw(t)
	s = strings.TrimRight(s, ")")
	if strings.HasSuffix(s, "true") {
		return true, true
	}
	if strings.HasSuffix(s, "false") {
		return false, true
	}
	return false, false
}

// ensureDeclsQuiet declares symbols needed by a query term without asserting new facts
func (e *Exec) ensureDeclsQuiet(t *Term) {
	defer func() { recover() }()
	seen := map[*Term]bool{}
	var walk func(t *Term)
	walk = func(t *Term) {
		if seen[t] {
			return
		}
		seen[t] = true
		for _, a := range t.Args {
			walk(a)
		}
		if len(t.Args) == 0 {
			if t.IsLit() || builtinOps[t.Op] || boundVars[t] {
				return
			}
			if !e.sol.declared(t.Op) {
				e.sol.DeclareConst(t)
			}
			return
		}
		if builtinOps[t.Op] || e.sol.declared(t.Op) {
			return
		}
		sig, ok := funSigs[t.Op]
		if !ok {
			var as []Sort
			for _, a := range t.Args {
				as = append(as, a.S)
			}
			sig.args, sig.res = as, t.S
		}
		e.sol.DeclareFun(t.Op, sig.args, sig.res)
	}
	walk(t)
}

func (e *Exec) evalStr(t *Term) ([]byte, int) {
	n, ok := e.evalInt(SLen(t))
	if !ok || n < 0 {
		return nil, 0
	}
	m := n
	if m > 48 {
		m = 48
	}
	b := make([]byte, m)
	for i := int64(0); i < m; i++ {
		v, _ := e.evalInt(App("s_at", SInt, t, IntLit(i)))
		b[i] = byte(v)
	}
	return b, int(n)
}

type extractor struct {
	e     *Exec
	ctx   *SpecCtx // reads the entry heap
	seen  map[int64]*XVal
	nodes int
	ptrs  []*Term // pointer-valued terms visited (for the refinement of the candidate model)
}

func goTypeString(t types.Type) string {
	return types.TypeString(t, func(p *types.Package) string { return p.Name() })
}

func (x *extractor) val(v Val, t types.Type, depth int) *XVal {
	x.nodes++
	if x.nodes > 400 || depth > 9 {
		return &XVal{Kind: "opaque", Type: goTypeString(t), t: t}
	}
	e := x.e
	switch vv := v.(type) {
	case *StructVal:
		s := under(t).(*types.Struct)
		out := &XVal{Kind: "struct", Type: goTypeString(t), Fields: map[string]*XVal{}, t: t}
		for i := 0; i < s.NumFields(); i++ {
			out.Fields[s.Field(i).Name()] = x.val(vv.F[i], s.Field(i).Type(), depth+1)
		}
		return out
	case *ArrayVal:
		out := &XVal{Kind: "slice", Type: goTypeString(t), t: t}
		for _, el := range vv.E {
			out.Elems = append(out.Elems, x.val(el, under(t).(*types.Array).Elem(), depth+1))
		}
		out.Len = len(out.Elems)
		return out
	case *Term:
		switch u := under(t).(type) {
		case *types.Basic:
			switch sortOf(t) {
			case SBool:
				b, _ := e.evalBool(vv)
				return &XVal{Kind: "bool", Bool: b, Type: goTypeString(t), t: t}
			case SStr:
				b, n := e.evalStr(vv)
				return &XVal{Kind: "string", Bytes: hex.EncodeToString(b), Len: n, Type: goTypeString(t), t: t}
			default:
				n, _ := e.evalInt(vv)
				return &XVal{Kind: "int", Int: strconv.FormatInt(n, 10), Type: goTypeString(t), t: t}
			}
		case *types.Slice:
			ln, _ := e.evalInt(SlLen(vv))
			out := &XVal{Kind: "slice", Type: goTypeString(t), Len: int(ln), t: t}
			if ln < 0 {
				ln = 0
			}
			if ln > 6 {
				ln = 6
			}
			for i := int64(0); i < ln; i++ {
				ref := elemRef(vv, IntLit(i))
				out.Elems = append(out.Elems, x.val(x.ctx.loadAt(ref, u.Elem()), u.Elem(), depth+1))
			}
			return out
		case *types.Pointer:
			r, _ := e.evalInt(vv)
			if r == 0 {
				return &XVal{Kind: "nil", Type: goTypeString(t), t: t}
			}
			if prev, ok := x.seen[r]; ok && depth > 1 {
				return &XVal{Kind: "ptr", Ref: fmt.Sprint(r), Type: goTypeString(t), Fields: prev.Fields, Dyn: prev.Dyn, t: t}
			}
			out := &XVal{Kind: "ptr", Ref: fmt.Sprint(r), Type: goTypeString(t), t: t}
			x.seen[r] = out
			if len(x.ptrs) < 40 {
				x.ptrs = append(x.ptrs, vv)
			}
			if _, isS := under(u.Elem()).(*types.Struct); isS {
				sv := x.ctx.loadAt(vv, u.Elem())
				inner := x.val(sv, u.Elem(), depth+1)
				out.Fields = inner.Fields
				// bytes.Buffer contents live in a ghost
				if goTypeString(u.Elem()) == "bytes.Buffer" {
					b, n := e.evalStr(Select(x.ctx.heaps("G!bufdata", ArrSort(SStr)), vv))
					out.Dyn = &XVal{Kind: "string", Bytes: hex.EncodeToString(b), Len: n}
				}
			} else {
				out.Dyn = x.val(x.ctx.loadAt(vv, u.Elem()), u.Elem(), depth+1)
			}
			return out
		case *types.Interface:
			tid, _ := e.evalInt(IfTid(vv))
			if tid == 0 {
				return &XVal{Kind: "nil", Type: goTypeString(t), t: t}
			}
			dt, ok := tidTypes[int(tid)]
			if !ok {
				return &XVal{Kind: "opaque", Type: goTypeString(t), t: t}
			}
			return &XVal{Kind: "iface", Type: goTypeString(t), Dyn: x.val(x.ctx.payload(vv, dt), dt, depth+1), t: t}
		case *types.Signature, *types.Map, *types.Chan:
			r, _ := e.evalInt(vv)
			if r == 0 {
				return &XVal{Kind: "nil", Type: goTypeString(t), t: t}
			}
			return &XVal{Kind: "opaque", Type: goTypeString(t), t: t}
		}
	}
	return &XVal{Kind: "opaque", Type: goTypeString(t), t: t}
}

// ---- BER serialisation of an extracted packet -------------------------------------------

func xint(x *XVal) int64 {
	if x == nil {
		return 0
	}
	n, _ := strconv.ParseInt(x.Int, 10, 64)
	return n
}

func berEncode(p *XVal, depth int) []byte {
	if p == nil || p.Kind != "ptr" || depth > 8 {
		return nil
	}
	id := p.Fields["Identifier"]
	var cls, typ, tag int64
	if id != nil {
		cls, typ, tag = xint(id.Fields["ClassType"]), xint(id.Fields["TagType"]), xint(id.Fields["Tag"])
	}
	var content []byte
	kids := p.Fields["Children"]
	if typ == 32 && kids != nil {
		for _, k := range kids.Elems {
			content = append(content, berEncode(k, depth+1)...)
		}
	} else if d := p.Fields["Data"]; d != nil && d.Dyn != nil {
		content, _ = hex.DecodeString(d.Dyn.Bytes)
	}
	if cls&0xC0 == 0 && tag == 0 {
		// the model left the tag unconstrained (0 = end-of-contents, which the BER
		// reader refuses inside a definite length): any other universal tag serves
		if typ&0x20 != 0 {
			tag = 16
		} else {
			tag = 4
		}
	}
	var out []byte
	first := byte(cls&0xC0) | byte(typ&0x20)
	if tag >= 0 && tag < 31 {
		out = append(out, first|byte(tag))
	} else {
		out = append(out, first|0x1f)
		if tag < 0 {
			tag = 31
		}
		var tb []byte
		for t := tag; ; t >>= 7 {
			tb = append([]byte{byte(t & 0x7f)}, tb...)
			if t>>7 == 0 {
				break
			}
		}
		for i := range tb[:len(tb)-1] {
			tb[i] |= 0x80
		}
		out = append(out, tb...)
	}
	n := len(content)
	switch {
	case n < 128:
		out = append(out, byte(n))
	case n < 256:
		out = append(out, 0x81, byte(n))
	default:
		out = append(out, 0x82, byte(n>>8), byte(n))
	}
	return append(out, content...)
}

// ---- Go literals ---------------------------------------------------------------------------

type litGen struct {
	direct    bool // build *ber.Packet values field by field (no wire-form pre-condition to respect)
	usesBytes bool
	imports map[string]bool
	ownPkg  string
	setup   []string
	n       int
}

func (g *litGen) typeStr(t types.Type) string {
	return types.TypeString(t, func(p *types.Package) string {
		if p.Name() == g.ownPkg {
			return ""
		}
		g.imports[p.Path()] = true
		if p.Path() == "github.com/go-asn1-ber/asn1-ber" {
			return "ber"
		}
		return p.Name()
	})
}

func (g *litGen) lit(x *XVal) string {
	if x == nil {
		return "nil"
	}
	t := x.t
	switch x.Kind {
	case "int":
		if t != nil {
			if b, ok := t.(*types.Basic); ok && b.Kind() == types.Int {
				return x.Int
			}
			return g.typeStr(t) + "(" + x.Int + ")"
		}
		return x.Int
	case "bool":
		return strconv.FormatBool(x.Bool)
	case "string":
		b, _ := hex.DecodeString(x.Bytes)
		s := strconv.Quote(string(b))
		if t != nil {
			if _, isB := t.(*types.Basic); !isB {
				return g.typeStr(t) + "(" + s + ")"
			}
		}
		return s
	case "nil":
		return "nil"
	case "slice":
		if t == nil {
			return "nil"
		}
		var es []string
		for _, el := range x.Elems {
			es = append(es, g.lit(el))
		}
		if sl, ok := under(t).(*types.Slice); ok {
			if b, isB := under(sl.Elem()).(*types.Basic); isB && b.Kind() == types.Uint8 {
				return g.typeStr(t) + "{" + strings.Join(es, ", ") + "}"
			}
		}
		return g.typeStr(t) + "{" + strings.Join(es, ", ") + "}"
	case "iface":
		return g.lit(x.Dyn)
	case "struct":
		return g.structLit(x, t, false)
	case "ptr":
		if t == nil {
			return "nil"
		}
		el := t.Underlying().(*types.Pointer).Elem()
		ts := goTypeString(el)
		switch ts {
		case "ber.Packet", "asn1-ber.Packet":
			g.imports["github.com/go-asn1-ber/asn1-ber"] = true
			if g.direct {
				return g.pktLit(x, 0)
			}
			g.usesBytes = true
			return fmt.Sprintf("govcPkt(%q)", hex.EncodeToString(berEncode(x, 0)))
		case "bufio.Writer":
			g.imports["bufio"] = true
			g.imports["io"] = true
			return "bufio.NewWriter(io.Discard)"
		case "bufio.Reader":
			g.imports["bufio"] = true
			g.imports["strings"] = true
			return `bufio.NewReader(strings.NewReader(""))`
		case "sync.Mutex":
			g.imports["sync"] = true
			return "&sync.Mutex{}"
		case "bytes.Buffer":
			g.imports["bytes"] = true
			if x.Dyn != nil {
				b, _ := hex.DecodeString(x.Dyn.Bytes)
				return "bytes.NewBufferString(" + strconv.Quote(string(b)) + ")"
			}
			return "&bytes.Buffer{}"
		}
		if _, isS := under(el).(*types.Struct); isS {
			if n, ok := el.(*types.Named); ok && n.Obj().Pkg() != nil && n.Obj().Pkg().Name() == g.ownPkg {
				xx := *x
				xx.Kind = "struct"
				return "&" + g.structLit(&xx, el, true)
			}
			return "nil"
		}
		// pointer to scalar
		g.n++
		v := fmt.Sprintf("govcV%d", g.n)
		g.setup = append(g.setup, fmt.Sprintf("%s := %s", v, g.lit(x.Dyn)))
		return "&" + v
	}
	// opaque
	if t != nil {
		switch goTypeString(t) {
		case "hclog.Logger":
			g.imports["github.com/hashicorp/go-hclog"] = true
			return "hclog.NewNullLogger()"
		case "context.Context":
			g.imports["context"] = true
			return "context.Background()"
		}
	}
	return "nil"
}

func (g *litGen) structLit(x *XVal, t types.Type, named bool) string {
	s, ok := under(t).(*types.Struct)
	if !ok {
		return "nil"
	}
	var fs []string
	for i := 0; i < s.NumFields(); i++ {
		f := s.Field(i)
		fx := x.Fields[f.Name()]
		if fx == nil {
			continue
		}
		// skip sync primitives and other external struct values: zero value is right
		if n, ok := f.Type().(*types.Named); ok && n.Obj().Pkg() != nil && n.Obj().Pkg().Name() != g.ownPkg {
			if _, isS := under(f.Type()).(*types.Struct); isS {
				continue
			}
		}
		l := g.lit(fx)
		if l == "nil" || l == "0" || l == `""` || l == "false" {
			if fx.Kind != "opaque" {
				continue
			}
			if l == "nil" {
				continue
			}
		}
		fs = append(fs, f.Name()+": "+l)
	}
	return g.typeStr(t) + "{" + strings.Join(fs, ", ") + "}"
}

// ---- the hook --------------------------------------------------------------------------------

var replayRepo string

func replayHook(e *Exec, st *State, o *Oblig) *Cex {
	defer func() { recover() }()
	top := e.top
	if top.Pkg == nil {
		return nil
	}
	if len(st.frames) == 0 {
		return nil
	}
	fr := st.frames[0]
	if fr.entry == nil {
		return nil
	}
	ctx := e.newSpecCtx(st, top.Pkg.Pkg, fr.entry).inOld()
	var x *extractor
	var g *litGen
	var args []string
	var inputs map[string]*XVal
	refined := 0
	for round := 0; ; round++ {
		// dry run first: it declares every symbol the walk needs (a declaration
		// discards the solver's model); then one check-sat, and the walk proper reads
		// all its values from that one model
		e.evalFrozen = false
		dry := &extractor{e: e, ctx: ctx, seen: map[int64]*XVal{}}
		for _, p := range top.Params {
			if v, ok := fr.env[p]; ok {
				dry.val(v, p.Type(), 0)
			}
		}
		e.sol.checkRaw(3000)
		e.evalFrozen = true
		x = &extractor{e: e, ctx: ctx, seen: map[int64]*XVal{}}
		g = &litGen{imports: map[string]bool{"testing": true, "fmt": true}, ownPkg: top.Pkg.Pkg.Name(), direct: !requiresWire(e.topC)}
		args = nil
		inputs = map[string]*XVal{}
		for _, p := range top.Params {
			v, ok := fr.env[p]
			if !ok {
				return nil
			}
			xv := x.val(v, p.Type(), 0)
			inputs[p.Name()] = xv
			args = append(args, g.lit(xv))
		}
		if round >= 3 || len(top.FreeVars) > 0 {
			break
		}
		// refine the candidate: the quantified assumptions (wire form, ...) that the
		// model may ignore are unfolded at the objects the candidate actually uses
		n, sat := e.refineCandidate(x.ptrs)
		if n == 0 || !sat {
			break
		}
		refined += n
	}
	if len(top.FreeVars) > 0 {
		js, _ := json.Marshal(inputs)
		return &Cex{Text: "candidate values (closure: no replay harness): " + string(js)}
	}
	// shaped option lists
	if e.shapeObj != nil && top.Signature.Variadic() {
		var opts []string
		for _, n := range e.shapeObj.Use {
			if sv, ok := e.shapeVars["arg_"+n]; ok {
				opts = append(opts, fmt.Sprintf("%s(%s)", n, g.lit(x.val(sv.v, sv.t, 0))))
			}
		}
		args[len(args)-1] = strings.Join(opts, ", ")
		if len(opts) == 0 {
			args = args[:len(args)-1]
		}
	} else if top.Signature.Variadic() && len(args) > 0 {
		args[len(args)-1] += "..."
	}
	call := ""
	if top.Signature.Recv() != nil {
		call = "(" + args[0] + ")." + top.Name() + "(" + strings.Join(args[1:], ", ") + ")"
	} else {
		call = top.Name() + "(" + strings.Join(args, ", ") + ")"
	}
	var imps []string
	for p := range g.imports {
		if p == "github.com/go-asn1-ber/asn1-ber" {
			imps = append(imps, `ber "github.com/go-asn1-ber/asn1-ber"`)
		} else {
			imps = append(imps, strconv.Quote(p))
		}
	}
	sort.Strings(imps)
	hasPkt := g.usesBytes
	if hasPkt {
		found := false
		for _, i := range imps {
			if strings.Contains(i, "encoding/hex") {
				found = true
			}
		}
		if !found {
			imps = append(imps, `"encoding/hex"`)
		}
	}
	nres := top.Signature.Results().Len()
	lhs := ""
	pr := ""
	if nres > 0 {
		var rs []string
		for i := 0; i < nres; i++ {
			rs = append(rs, fmt.Sprintf("r%d", i))
		}
		lhs = strings.Join(rs, ", ") + " := "
		pr = "fmt.Printf(\"GOVC-REPLAY: RESULT " + strings.Repeat("%+v | ", nres) + "\\n\", " + strings.Join(rs, ", ") + ")"
	}
	src := "package " + top.Pkg.Pkg.Name() + "\n\nimport (\n\t" + strings.Join(imps, "\n\t") + "\n)\n\n" +
		"// generated by govc: replay of the candidate counterexample for\n// " + o.Name + "\n" +
		"func TestGovcReplay(t *testing.T) {\n\tdefer func() {\n\t\tif r := recover(); r != nil {\n\t\t\tfmt.Printf(\"GOVC-REPLAY: PANIC %v\\n\", r)\n\t\t}\n\t}()\n"
	for _, s := range g.setup {
		src += "\t" + s + "\n"
	}
	src += "\t" + lhs + call + "\n"
	if pr != "" {
		src += "\t" + pr + "\n"
	}
	src += "\tfmt.Println(\"GOVC-REPLAY: NO-PANIC\")\n}\n"
	if hasPkt {
		src += "\nfunc govcPkt(h string) *ber.Packet {\n\tb, _ := hex.DecodeString(h)\n\tp, err := ber.DecodePacketErr(b)\n\tif err != nil {\n\t\tfmt.Printf(\"GOVC-REPLAY: DECODE-ERROR %v\\n\", err)\n\t\tpanic(\"govc: the candidate packet is not accepted by the BER reader\")\n\t}\n\treturn p\n}\n"
	}
	js, _ := json.Marshal(inputs)
	cex := &Cex{Text: fmt.Sprintf("candidate inputs (solver model, entry state; %d unfolded instances of quantified assumptions added while refining it): ", refined) + string(js) + "\n\n--- replay test ---\n" + src}
	out, ok := runReplay(top.Pkg.Pkg.Path(), src)
	cex.Text += "\n--- replay output ---\n" + out
	wantPanic := strings.HasPrefix(o.Class, "SAFE") || o.Class == "EXC"
	if ok && wantPanic && strings.Contains(out, "GOVC-REPLAY: PANIC") && !strings.Contains(out, "DECODE-ERROR") {
		cex.Reproduced = true
		cex.Text += "\nREPRODUCED: the real function panics on this input\n"
	} else if wantPanic {
		cex.Text += "\nNOT-REPRODUCED (the candidate model may violate a quantified assumption, or the harness cannot build this input)\n"
	} else {
		cex.Text += "\n(no executable oracle for this post-condition: the run above shows what the real function returns for the candidate input)\n"
	}
	return cex
}

func runReplay(pkgPath, src string) (string, bool) {
	repo := replayRepo
	if repo == "" {
		repo = "/repo"
	}
	dir := repo
	if strings.HasSuffix(pkgPath, "/testdirectory") {
		dir = filepath.Join(repo, "testdirectory")
	}
	scratch, err := os.MkdirTemp("/var/tmp", "govc-replay")
	if err != nil {
		return err.Error(), false
	}
	defer os.RemoveAll(scratch)
	tf := filepath.Join(scratch, "replay_test.go")
	os.WriteFile(tf, []byte(src), 0o644)
	ov := filepath.Join(scratch, "ov.json")
	js, _ := json.Marshal(map[string]map[string]string{"Replace": {filepath.Join(dir, "zz_govc_replay_test.go"): tf}})
	os.WriteFile(ov, js, 0o644)
	cmd := exec.Command("go", "test", "-overlay", ov, "-vet=off", "-count=1", "-timeout", "60s", "-run", "TestGovcReplay$", "-v", ".")
	cmd.Dir = dir
	cmd.Env = append(os.Environ(), "GOFLAGS=-mod=mod", "GOPROXY=off", "GOSUMDB=off", "GOTOOLCHAIN=local")
	done := make(chan struct{})
	var out []byte
	go func() { out, _ = cmd.CombinedOutput(); close(done) }()
	select {
	case <-done:
	case <-time.After(120 * time.Second):
		if cmd.Process != nil {
			cmd.Process.Kill()
		}
		return "replay timed out", false
	}
	s := string(out)
	if len(s) > 4000 {
		s = s[:4000]
	}
	return s, strings.Contains(s, "GOVC-REPLAY:")
}

func max(a, b int) int {
	if a > b {
		return a
	}
	return b
}

// refineCandidate asserts, in the live scope of the failed obligation, the
// unfolding of every unary predicate at every pointer the candidate visits, with
// the index quantifiers of the unfolding instantiated at 0..5, and re-checks.
// Returns the number of facts added and whether the scope is still satisfiable
// (sat or unknown).
func (e *Exec) refineCandidate(ptrs []*Term) (int, bool) {
	s := e.sol
	n := 0
	done := map[string]bool{}
	var syms []string
	for sym := range predDefs {
		syms = append(syms, sym)
	}
	sort.Strings(syms)
	idx := []*Term{IntLit(0), IntLit(1), IntLit(2), IntLit(3), IntLit(4), IntLit(5)}
	for _, t := range ptrs {
		for _, sym := range syms {
			d := predDefs[sym]
			if os.Getenv("GOVC_TRACE") != "" {
				fmt.Fprintf(os.Stderr, "refineCandidate: sym %s arity %d declared %v\n", sym, len(d.qs), s.declared(sym))
			}
			if len(d.qs) != 1 || d.qs[0].S != SInt || !s.declared(sym) {
				continue
			}
			key := sym + "|" + t.String()
			if done[key] || e.refined[key] {
				continue
			}
			done[key] = true
			if e.refined == nil {
				e.refined = map[string]bool{}
			}
			e.refined[key] = true
			body := Subst(d.body, map[*Term]*Term{d.qs[0]: t})
			f := Implies(App(sym, SBool, t), instHyp(body, idx))
			e.ensureDeclsQuiet(f)
			s.raw("(assert " + f.String() + ")")
			n++
		}
	}
	if os.Getenv("GOVC_TRACE") != "" {
		for li, m := range s.declLevel {
			for k := range m {
				if strings.Contains(k, "pred") {
					fmt.Fprintf(os.Stderr, "refineCandidate: level %d declares %s\n", li, k)
				}
			}
		}
		fmt.Fprintf(os.Stderr, "refineCandidate: %d pointers, %d predicates, %d facts\n", len(ptrs), len(syms), n)
	}
	if n == 0 {
		return 0, true
	}
	r, _ := s.checkRaw(3000)
	return n, r == "sat" || r == "unknown"
}

// instHyp: an assumed formula with its positive universal quantifiers (one
// integer binder) conjoined with their instances at the given terms
func instHyp(t *Term, at []*Term) *Term {
	if t.S != SBool || len(t.Args) == 0 {
		return t
	}
	switch t.Op {
	case "and":
		out := make([]*Term, len(t.Args))
		for i, a := range t.Args {
			out[i] = instHyp(a, at)
		}
		return And(out...)
	case "=>":
		return Implies(t.Args[0], instHyp(t.Args[1], at))
	case "forall":
		if len(t.Bind) != 1 || t.Bind[0].S != SInt {
			return t
		}
		parts := []*Term{t}
		for _, k := range at {
			parts = append(parts, Subst(t.Args[0], map[*Term]*Term{t.Bind[0]: k}))
		}
		return And(parts...)
	}
	return t
}

// pktLit: the candidate packet as a composite literal (used when the function
// under test accepts arbitrary trees; Data and children are never nil, as the
// type invariants of the contract file demand)
func (g *litGen) pktLit(x *XVal, depth int) string {
	if x == nil || x.Kind != "ptr" || depth > 6 {
		g.imports["bytes"] = true
		return "&ber.Packet{Data: &bytes.Buffer{}}"
	}
	g.imports["bytes"] = true
	f := x.Fields
	var cls, typ, tag int64
	if id := f["Identifier"]; id != nil {
		cls, typ, tag = xint(id.Fields["ClassType"]), xint(id.Fields["TagType"]), xint(id.Fields["Tag"])
	}
	val := "nil"
	if v := f["Value"]; v != nil && v.Kind == "iface" && v.Dyn != nil {
		switch v.Dyn.Kind {
		case "string":
			b, _ := hex.DecodeString(v.Dyn.Bytes)
			val = strconv.Quote(string(b))
		case "int":
			val = v.Dyn.Type + "(" + v.Dyn.Int + ")"
		case "bool":
			val = strconv.FormatBool(v.Dyn.Bool)
		}
	}
	data := "&bytes.Buffer{}"
	if d := f["Data"]; d != nil && d.Dyn != nil {
		b, _ := hex.DecodeString(d.Dyn.Bytes)
		data = "bytes.NewBufferString(" + strconv.Quote(string(b)) + ")"
	}
	var kids []string
	if ch := f["Children"]; ch != nil {
		for _, k := range ch.Elems {
			kids = append(kids, g.pktLit(k, depth+1))
		}
	}
	return fmt.Sprintf("&ber.Packet{Identifier: ber.Identifier{ClassType: ber.Class(%d), TagType: ber.Type(%d), Tag: ber.Tag(%d)}, Value: %s, Data: %s, Children: []*ber.Packet{%s}}", cls, typ, tag, val, data, strings.Join(kids, ", "))
}

func requiresWire(c *Contract) bool {
	if c == nil {
		return false
	}
	for _, r := range c.Requires {
		if strings.Contains(r.Text, "wire(") || strings.Contains(r.Text, "packetOK(") || strings.Contains(r.Text, "reqPktOK(") {
			return true
		}
	}
	return false
}
