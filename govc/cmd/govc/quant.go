package main

import (
	"go/types"
	"strings"

	"golang.org/x/tools/go/ssa"
)

func isIntLike(t types.Type) bool {
	b, ok := t.Underlying().(*types.Basic)
	return ok && b.Info()&types.IsInteger != 0
}

// Go-side handling of quantifiers (DESIGN appendix, item 9). The solvers run
// with MBQI off, so that a query never hangs in model search; what e-matching
// would have to guess is done here, with equivalence-preserving rewrites only:
//
//   skolemize(g, true)   universal variables of a goal (positive forall,
//                        negative exists) become fresh constants sk.*
//   skolemize(h, false)  existential variables of an assumption (positive
//                        exists) become fresh witness constants wit.*, which
//                        are remembered as instantiation candidates
//   strengthen(g, ...)   a positive exists of the goal gets the disjunction of
//                        its instances at the candidate terms, a negative
//                        forall (a hypothesis inside the goal) the conjunction
//                        of its instances

func hasQuant(t *Term, seen map[*Term]bool) bool {
	if seen[t] {
		return false
	}
	seen[t] = true
	if t.Op == "forall" || t.Op == "exists" {
		return true
	}
	if t.S != SBool {
		return false
	}
	for _, a := range t.Args {
		if hasQuant(a, seen) {
			return true
		}
	}
	return false
}

// skolemize: goal=true treats t as something to prove, goal=false as something
// assumed. pos is the polarity of the current position.
func skolemize(t *Term, goal bool, pos bool, made *[]*Term) *Term {
	if t.S != SBool || len(t.Args) == 0 {
		return t
	}
	switch t.Op {
	case "and", "or":
		out := make([]*Term, len(t.Args))
		ch := false
		for i, a := range t.Args {
			out[i] = skolemize(a, goal, pos, made)
			ch = ch || out[i] != a
		}
		if !ch {
			return t
		}
		if t.Op == "and" {
			return And(out...)
		}
		return Or(out...)
	case "=>":
		a := skolemize(t.Args[0], goal, !pos, made)
		b := skolemize(t.Args[1], goal, pos, made)
		if a == t.Args[0] && b == t.Args[1] {
			return t
		}
		return Implies(a, b)
	case "not":
		a := skolemize(t.Args[0], goal, !pos, made)
		if a == t.Args[0] {
			return t
		}
		return Not(a)
	case "forall", "exists":
		// a goal loses its universals, an assumption its existentials
		univ := (t.Op == "forall") == pos
		if univ != goal {
			return t
		}
		m := map[*Term]*Term{}
		prefix := "wit."
		if goal {
			prefix = "sk."
		}
		for _, v := range t.Bind {
			c := Const(freshName(prefix+strings.Trim(v.Op, "|")), v.S)
			m[v] = c
			*made = append(*made, c)
		}
		return skolemize(Subst(t.Args[0], m), goal, pos, made)
	}
	return t
}

// strengthen adds instances at the candidate terms (see above). depth bounds the
// nesting of instantiated existentials.
func strengthen(t *Term, pos bool, cands []*Term, depth int) *Term {
	if t.S != SBool || len(t.Args) == 0 || depth > 2 {
		return t
	}
	switch t.Op {
	case "and", "or":
		out := make([]*Term, len(t.Args))
		ch := false
		for i, a := range t.Args {
			out[i] = strengthen(a, pos, cands, depth)
			ch = ch || out[i] != a
		}
		if !ch {
			return t
		}
		if t.Op == "and" {
			return And(out...)
		}
		return Or(out...)
	case "=>":
		a := strengthen(t.Args[0], !pos, cands, depth)
		b := strengthen(t.Args[1], pos, cands, depth)
		if a == t.Args[0] && b == t.Args[1] {
			return t
		}
		return Implies(a, b)
	case "not":
		a := strengthen(t.Args[0], !pos, cands, depth)
		if a == t.Args[0] {
			return t
		}
		return Not(a)
	case "exists", "forall":
		if len(t.Bind) != 1 || t.Bind[0].S != SInt {
			return t
		}
		if (t.Op == "exists") != pos {
			return t
		}
		parts := []*Term{t}
		for _, c := range cands {
			inst := Subst(t.Args[0], map[*Term]*Term{t.Bind[0]: c})
			parts = append(parts, strengthen(inst, pos, cands, depth+1))
		}
		if t.Op == "exists" {
			return Or(parts...)
		}
		return And(parts...)
	}
	return t
}

// candidates: witness constants of the path, skolem constants of the goal and
// the integer values of the frames' SSA registers (loop indices, lengths)
func (e *Exec) candidates(st *State, sks []*Term) []*Term {
	seen := map[*Term]bool{}
	var out []*Term
	add := func(t *Term) {
		if t != nil && t.S == SInt && !seen[t] && len(out) < 20 {
			seen[t] = true
			out = append(out, t)
		}
	}
	for _, s := range sks {
		add(s)
	}
	for i := len(e.witLv) - 1; i >= 0; i-- {
		for _, w := range e.witLv[i] {
			add(w)
		}
	}
	if st != nil {
		for i := len(st.frames) - 1; i >= 0 && i >= len(st.frames)-2; i-- {
			fr := st.frames[i]
			// integer registers (e.g. an index loaded from a slice), latest first
			var regs []*Term
			for _, b := range fr.fn.Blocks {
				for _, in := range b.Instrs {
					v, ok := in.(ssa.Value)
					if !ok {
						continue
					}
					if x, has := fr.env[v]; has {
						if t, isT := x.(*Term); isT && t.S == SInt && !t.IsLit() && isIntLike(v.Type()) {
							regs = append(regs, t)
						}
					}
				}
			}
			for k := len(regs) - 1; k >= 0 && k >= len(regs)-6; k-- {
				add(regs[k])
			}
			for _, a := range fr.fn.Locals {
				lc := fr.locals[a]
				if lc == nil {
					continue
				}
				if t, ok := lc.v.(*Term); ok && !t.IsLit() {
					if pt, isP := a.Type().Underlying().(*types.Pointer); isP && isIntLike(pt.Elem()) {
						add(t)
					}
					if t.S == SSlice {
						add(SlLen(t))
						add(Sub(SlLen(t), IntLit(1)))
					}
				}
			}
		}
	}
	return out
}
