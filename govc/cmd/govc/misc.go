package main

import (
	"fmt"
	"go/parser"
	"go/ast"
	"go/types"
	"strings"

	"golang.org/x/tools/go/ssa"
)

var pathDone Val = &struct{ done bool }{true}

func parseTypeExpr(s string) (ast.Expr, error) { return parser.ParseExpr(s) }

// ---- maps ---------------------------------------------------------------------------

type namedHeap struct {
	name string
	sort Sort
}

func mapSorts(mt *types.Map) (k, v Sort) {
	k = sortOf(mt.Key())
	if isComposite(mt.Elem()) {
		panic(unsupported("map with composite values"))
	}
	v = sortOf(mt.Elem())
	return
}

func mapHeaps(mt *types.Map) []namedHeap {
	defer func() { recover() }()
	k, v := mapSorts(mt)
	key := typeKey(mt)
	return []namedHeap{
		{"MapDom!" + key, ArrSort(Sort("(Array " + string(k) + " Bool)"))},
		{"MapVal!" + key, ArrSort(Sort("(Array " + string(k) + " " + string(v) + ")"))},
		{"MapLen!" + key, ArrSort(SInt)},
	}
}

type heapFn func(name string, s Sort) *Term

func (e *Exec) mapParts(heaps heapFn, m *Term, mt *types.Map) (dom, val *Term, ks, vs Sort) {
	hs := mapHeaps(mt)
	if hs == nil {
		panic(unsupported("map type " + mt.String()))
	}
	ks, vs = mapSorts(mt)
	dom = Select(heaps(hs[0].name, hs[0].sort), m)
	val = Select(heaps(hs[1].name, hs[1].sort), m)
	return
}

func (e *Exec) mapGet(heaps heapFn, m *Term, mt *types.Map, k *Term) *Term {
	dom, val, _, vs := e.mapParts(heaps, m, mt)
	in := And(Neq(m, IntLit(0)), mk("select", SBool, dom, k))
	return Ite(in, mk("select", vs, val, k), zeroTerm(vs))
}

func (e *Exec) mapHas(heaps heapFn, m *Term, mt *types.Map, k *Term) *Term {
	dom, _, _, _ := e.mapParts(heaps, m, mt)
	return And(Neq(m, IntLit(0)), mk("select", SBool, dom, k))
}

func (e *Exec) mapLen(heaps heapFn, m *Term) *Term {
	// length heap is keyed by map type; spec-level len(m) needs the type: use a
	// type-independent function instead
	declFun("maplen", SInt, SInt)
	if _, ok := funAxioms["maplen"]; !ok {
		x := BoundVar("x", SInt)
		funAxioms["maplen"] = []*Term{Forall([]*Term{x}, And(Ge(App("maplen", SInt, x), IntLit(0)), Eq(App("maplen", SInt, IntLit(0)), IntLit(0))), []*Term{App("maplen", SInt, x)})}
	}
	return App("maplen", SInt, m)
}

func (e *Exec) lookup(st *State, fr *Frame, i *ssa.Lookup) Val {
	x := e.val(fr, i.X)
	k := e.tval(fr, i.Index)
	if mt, ok := under(i.X.Type()).(*types.Map); ok {
		m := e.term(x)
		v := e.mapGet(st.heap, m, mt, k)
		if i.CommaOk {
			return TupleVal{v, e.mapHas(st.heap, m, mt, k)}
		}
		return v
	}
	// string index
	s := e.term(x)
	e.check(st, fr, "SAFE.index", i, "", And(Le(IntLit(0), k), Lt(k, SLen(s))))
	return App("s_at", SInt, s, k)
}

func (e *Exec) makeMap(st *State, fr *Frame, i *ssa.MakeMap) Val {
	mt := under(i.Type()).(*types.Map)
	r := e.newObject(st, "map", nil, nil)
	hs := mapHeaps(mt)
	if hs == nil {
		panic(unsupported("map type " + mt.String()))
	}
	ks, _ := mapSorts(mt)
	empty := Const("((as const (Array "+string(ks)+" Bool)) false)", Sort("(Array "+string(ks)+" Bool)"))
	builtinOps[empty.Op] = true
	e.setHeap(st, hs[0].name, hs[0].sort, Store(st.heap(hs[0].name, hs[0].sort), r, empty))
	e.assume(Eq(e.mapLen(st.heap, r), IntLit(0)))
	return r
}

func (e *Exec) mapUpdate(st *State, fr *Frame, i *ssa.MapUpdate) {
	mt := under(i.Map.Type()).(*types.Map)
	m := e.tval(fr, i.Map)
	k := e.tval(fr, i.Key)
	v := e.tval(fr, i.Value)
	e.check(st, fr, "SAFE.mapnil", i, "", Neq(m, IntLit(0)))
	hs := mapHeaps(mt)
	dom, val, _, _ := e.mapParts(st.heap, m, mt)
	e.setHeap(st, hs[0].name, hs[0].sort, Store(st.heap(hs[0].name, hs[0].sort), m, mk("store", dom.S, dom, k, TTrue)))
	e.setHeap(st, hs[1].name, hs[1].sort, Store(st.heap(hs[1].name, hs[1].sort), m, mk("store", val.S, val, k, v)))
}

// ---- map iteration -------------------------------------------------------------------

type MapIter struct {
	m       *Term
	mt      *types.Map
	visited *Term // (Array K Bool)
	count   *Term
	str     *Term // string iteration
	pos     *Term
}

func (e *Exec) rangeOp(st *State, fr *Frame, i *ssa.Range) Val {
	x := e.tval(fr, i.X)
	if mt, ok := under(i.X.Type()).(*types.Map); ok {
		ks, _ := mapSorts(mt)
		empty := Const("((as const (Array "+string(ks)+" Bool)) false)", Sort("(Array "+string(ks)+" Bool)"))
		builtinOps[empty.Op] = true
		return &MapIter{m: x, mt: mt, visited: empty, count: IntLit(0)}
	}
	return &MapIter{str: x, pos: IntLit(0)}
}

func (e *Exec) havocIter(st *State, mi *MapIter) *MapIter {
	n := *mi
	if mi.mt != nil {
		n.visited = Const(freshName("visited"), mi.visited.S)
		n.count = Const(freshName("itcount"), SInt)
		e.assume(Le(IntLit(0), n.count))
		// visited keys are in the domain
		dom, _, ks, _ := e.mapParts(st.heap, mi.m, mi.mt)
		k := BoundVar("k", ks)
		vk := mk("select", SBool, n.visited, k)
		e.assume(Forall([]*Term{k}, Implies(vk, mk("select", SBool, dom, k)), []*Term{vk}))
	} else {
		n.pos = Const(freshName("itpos"), SInt)
		e.assume(And(Le(IntLit(0), n.pos), Le(n.pos, SLen(mi.str))))
	}
	return &n
}

func (e *Exec) nextOp(st *State, fr *Frame, i *ssa.Next) bool {
	mi := e.val(fr, i.Iter).(*MapIter)
	if mi.mt == nil {
		panic(unsupported("range over string"))
	}
	// nondeterministic order: either done, or some unvisited key of the domain
	dom, val, ks, vs := e.mapParts(st.heap, mi.m, mi.mt)
	key := Const(freshName("rangekey"), ks)
	more := Const(freshName("rangemore"), SBool)
	e.sol.DeclareConst(key)
	e.sol.DeclareConst(more)
	inDom := And(Neq(mi.m, IntLit(0)), mk("select", SBool, dom, key))
	e.assume(Implies(more, And(inDom, Not(mk("select", SBool, mi.visited, key)))))
	// when iteration ends every key of the domain has been visited
	k := BoundVar("k", ks)
	dk := mk("select", SBool, dom, k)
	e.assume(Implies(Not(more), Forall([]*Term{k}, Implies(And(Neq(mi.m, IntLit(0)), dk), mk("select", SBool, mi.visited, k)), []*Term{dk})))
	e.assume(Implies(Not(more), Eq(mi.count, e.mapLen(st.heap, mi.m))))
	e.assume(Implies(more, Lt(mi.count, e.mapLen(st.heap, mi.m))))
	if lo, hi, _, _, ok := intRange(mi.mt.Key()); ok && ks == SInt {
		_ = lo
		_ = hi
		e.assume(e.wfTerm(st, key, mi.mt.Key()))
	}
	nv := *mi
	nv.visited = mk("store", mi.visited.S, mi.visited, key, TTrue)
	nv.count = Add(mi.count, IntLit(1))
	v := mk("select", vs, val, key)
	e.assumeWf(st, v, mi.mt.Elem())
	e.split(st, more, func(s *State) {
		f := s.top()
		f.env[i.Iter] = &nv
		f.env[i] = TupleVal{TTrue, key, v}
		f.pc++
	}, func(s *State) {
		f := s.top()
		f.env[i] = TupleVal{TFalse, zeroTerm(ks), zeroTerm(vs)}
		f.pc++
	})
	return true
}

// ---- go / select ------------------------------------------------------------------------

func (e *Exec) goStmt(st *State, fr *Frame, i *ssa.Go) {
	d := &Deferred{common: &i.Call, site: i}
	e.evalCallee(st, fr, &i.Call, d)
	// the spawned function is verified on its own (thread root); here only its
	// pre-condition is checked
	var fn *ssa.Function
	switch v := i.Call.Value.(type) {
	case *ssa.Function:
		fn = v
	case *ssa.MakeClosure:
		fn = v.Fn.(*ssa.Function)
	}
	if fn == nil {
		panic(unsupported("go with dynamic callee"))
	}
	c, ok := e.db.funcs[shortName(fn)]
	if !ok {
		e.fail(e.siteName(fr, "THREAD", i, "go "+shortName(fn)+" has no thread-root contract"), "THREAD", "spawned function has no contract")
		return
	}
	e.usedCtr[shortName(fn)] = true
	ctx := e.newSpecCtx(st, e.pkgOf(c), nil)
	var bindings []Val
	if cl, ok := st.closures[e.term(d.clo)]; ok {
		bindings = cl.bindings
	}
	vs := map[string]*specVar{}
	for k, p := range fn.Params {
		vs[p.Name()] = &specVar{v: d.args[k], t: p.Type()}
	}
	for k, fv := range fn.FreeVars {
		pt := fv.Type().Underlying().(*types.Pointer).Elem()
		b := bindings[k]
		vs[fv.Name()] = &specVar{get: func(c *SpecCtx) (Val, types.Type) { return c.loadAt(b, pt), pt }}
	}
	ctx.vars = vs
	for _, r := range c.Requires {
		if len(onlyClasses) > 0 && !classSelected("PRE") {
			// lockset / wait-group run: the conjuncts of the thread root's pre-condition that talk about
			// lock ownership or a wait-group counter are obligations of their own
			// (a token must have been added before the goroutine that releases it is started)
			for _, cj := range conjuncts(r.Expr) {
				t := exprStr(cj)
				if strings.Contains(t, "G_wgcnt[") {
					e.check(st, fr, "WG.pre", i, "go "+c.Name+" requires "+t, ctx.evalBool(cj))
				} else if lockRelated(t) {
					e.check(st, fr, "LOCK.pre", i, "go "+c.Name+" requires "+t, ctx.evalBool(cj))
				}
			}
		}
		e.check(st, fr, "PRE", i, "go "+c.Name+" requires "+r.Text, ctx.evalBool(r.Expr))
	}
	// effects of spawning declared as ensures of the `spawn` pseudo-clause are
	// modelled through ghost updates in the contract's "exit" clauses: none here
	e.applySpawn(st, fr, c, ctx)
}

func (e *Exec) selectOp(st *State, fr *Frame, i *ssa.Select) Val {
	if i.Blocking || len(i.States) != 1 || i.States[0].Dir != types.RecvOnly {
		panic(unsupported("select form"))
	}
	ch := e.tval(fr, i.States[0].Chan)
	ready := Const(freshName("selready"), SBool)
	e.sol.DeclareConst(ready)
	// a receive from a Done() channel can only succeed after cancellation
	e.assume(Implies(ready, Select(st.heap("G!closedch", ArrSort(SBool)), ch)))
	idx := Ite(ready, IntLit(0), IntLit(-1))
	tv := TupleVal{idx, ready}
	et := under(i.States[0].Chan.Type()).(*types.Chan).Elem()
	tv = append(tv, zeroVal(et))
	return tv
}

var _ = fmt.Sprint
