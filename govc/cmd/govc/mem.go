package main

import (
	"fmt"
	"go/constant"
	"go/types"
	"math/big"
	"strings"

	"golang.org/x/tools/go/ssa"
)

// ---- fresh names ------------------------------------------------------------

var nameCtr int

func freshName(prefix string) string {
	nameCtr++
	return fmt.Sprintf("|%s!%d|", strings.NewReplacer("|", "!", "\\", "!").Replace(prefix), nameCtr)
}

// registry consulted by the solver when a symbol first appears in a scope
var (
	constFacts = map[string][]*Term{}                // const name -> facts asserted when declared
	funSigs    = map[string]struct{ args []Sort; res Sort }{}
	funAxioms  = map[string][]*Term{}
	boundVars  = map[*Term]bool{}
)

func declFun(name string, res Sort, args ...Sort) {
	if _, ok := funSigs[name]; !ok {
		funSigs[name] = struct {
			args []Sort
			res  Sort
		}{args, res}
	}
}

func init() { isBoundVar = func(t *Term) bool { return boundVars[t] } }

// nameGround gives a large ground term a name (definition sent lazily)
func nameGround(t *Term) *Term {
	if len(t.Args) == 0 || treeSize(t) < 24 || hasBound(t) || t.S == SBool {
		return t
	}
	if c, ok := groundNames[t]; ok {
		return c
	}
	c := Const(freshName("g"), t.S)
	constDefs[c] = t
	constFacts[c.Op] = []*Term{mk("=", SBool, c, t)}
	groundNames[t] = c
	return c
}

var groundNames = map[*Term]*Term{}

func BoundVar(name string, s Sort) *Term {
	t := Const(freshName("q."+name), s)
	boundVars[t] = true
	return t
}

// fa: address of a nested struct/array field inside the object at ref
func faTerm(st types.Type, idx int, ref *Term) *Term {
	name := fieldFa(st, idx)
	q := "|" + name + "|"
	if _, ok := funSigs[q]; !ok {
		declFun(q, SInt, SInt)
		inv := "|" + name + "!inv|"
		declFun(inv, SInt, SInt)
		x := BoundVar("x", SInt)
		app := App(q, SInt, x)
		kind := IntLit(int64(100 + len(funSigs)))
		funAxioms[q] = []*Term{Forall([]*Term{x}, And(
			Eq(App(inv, SInt, app), x),
			Eq(App("rkind", SInt, app), kind),
			Eq(App("rroot", SInt, app), App("rroot", SInt, x)),
		), []*Term{app})}
	}
	return App(q, SInt, ref)
}

var strLits = map[string]*Term{}

func strLit(s string) *Term {
	if s == "" {
		return EmptyStr
	}
	if t, ok := strLits[s]; ok {
		return t
	}
	name := fmt.Sprintf("|str!%d!%s|", len(strLits)+1, sanitize(s))
	t := Const(name, SStr)
	strLits[s] = t
	facts := []*Term{
		Eq(App("s_len", SInt, t), IntLit(int64(len(s)))),
		Eq(App("s_id", SInt, t), IntLit(int64(len(strLits)))),
	}
	for i := 0; i < len(s) && i < 24; i++ {
		facts = append(facts, Eq(App("s_at", SInt, t, IntLit(int64(i))), IntLit(int64(s[i]))))
	}
	constFacts[name] = facts
	return t
}

func sanitize(s string) string {
	var sb strings.Builder
	for i := 0; i < len(s) && i < 24; i++ {
		c := s[i]
		if c >= 'a' && c <= 'z' || c >= 'A' && c <= 'Z' || c >= '0' && c <= '9' || c == '.' || c == '_' || c == '-' {
			sb.WriteByte(c)
		} else {
			sb.WriteByte('_')
		}
	}
	return sb.String()
}

func SLen(s *Term) *Term { return App("s_len", SInt, s) }

// ---- zero values, fresh symbolic values ---------------------------------------------

func zeroVal(t types.Type) Val {
	switch u := under(t).(type) {
	case *types.Struct:
		sv := &StructVal{T: t, F: make([]Val, u.NumFields())}
		for i := 0; i < u.NumFields(); i++ {
			sv.F[i] = zeroVal(u.Field(i).Type())
		}
		return sv
	case *types.Array:
		if u.Len() > 32 {
			panic(unsupported("large array value " + t.String()))
		}
		av := &ArrayVal{T: t, E: make([]Val, u.Len())}
		for i := range av.E {
			av.E[i] = zeroVal(u.Elem())
		}
		return av
	case *types.Tuple:
		tv := make(TupleVal, u.Len())
		for i := range tv {
			tv[i] = zeroVal(u.At(i).Type())
		}
		return tv
	}
	return zeroTerm(sortOf(t))
}

func zeroTerm(s Sort) *Term {
	switch s {
	case SInt:
		return IntLit(0)
	case SBool:
		return TFalse
	case SStr:
		return EmptyStr
	case SSlice:
		return NilSlice
	case SIface:
		return NilIface
	}
	panic("zeroTerm " + string(s))
}

// symbolic value of type t; facts collects well-formedness assumptions
func (e *Exec) freshVal(st *State, name string, t types.Type) Val {
	switch u := under(t).(type) {
	case *types.Struct:
		sv := &StructVal{T: t, F: make([]Val, u.NumFields())}
		for i := 0; i < u.NumFields(); i++ {
			sv.F[i] = e.freshVal(st, name+"."+u.Field(i).Name(), u.Field(i).Type())
		}
		return sv
	case *types.Array:
		if u.Len() > 32 {
			panic(unsupported("large array value " + t.String()))
		}
		av := &ArrayVal{T: t, E: make([]Val, u.Len())}
		for i := range av.E {
			av.E[i] = e.freshVal(st, fmt.Sprintf("%s.%d", name, i), u.Elem())
		}
		return av
	case *types.Tuple:
		tv := make(TupleVal, u.Len())
		for i := range tv {
			tv[i] = e.freshVal(st, fmt.Sprintf("%s.%d", name, i), u.At(i).Type())
		}
		return tv
	}
	c := Const(freshName(name), sortOf(t))
	e.assume(e.wfTerm(st, c, t))
	return c
}

// wfTerm: the facts every Go value of type t satisfies (ranges, slice shape,
// pointers allocated).
func (e *Exec) wfTerm(st *State, v *Term, t types.Type) *Term {
	switch u := under(t).(type) {
	case *types.Basic:
		if lo, hi, _, _, ok := intRange(t); ok {
			l, _ := new(big.Int).SetString(lo, 10)
			h, _ := new(big.Int).SetString(hi, 10)
			return And(Le(BigLit(l), v), Le(v, BigLit(h)))
		}
	case *types.Slice:
		return And(Le(IntLit(0), SlOff(v)), Le(IntLit(0), SlLen(v)), Le(SlLen(v), SlCap(v)),
			Or(Gt(SlArr(v), IntLit(0)), Eq(SlCap(v), IntLit(0))),
			Implies(Eq(SlArr(v), IntLit(0)), Eq(SlOff(v), IntLit(0))),
			e.allocatedOrNil(st, SlArr(v)))
	case *types.Pointer, *types.Map, *types.Signature, *types.Chan:
		_ = u
		return And(Le(IntLit(0), v), e.allocatedOrNil(st, v))
	case *types.Interface:
		return And(Le(IntLit(0), IfTid(v)), Le(IntLit(0), IfRef(v)), e.allocatedOrNil(st, IfRef(v)),
			Implies(Eq(IfTid(v), IntLit(0)), Eq(v, NilIface)))
	}
	return TTrue
}

func (e *Exec) allocatedOrNil(st *State, r *Term) *Term {
	if r.IsLit() {
		return TTrue
	}
	return Or(Eq(r, IntLit(0)), Allocd(st.alloc, r))
}

// ---- constants ---------------------------------------------------------------

func (e *Exec) constVal(c *ssa.Const) Val {
	t := c.Type()
	if c.Value == nil {
		return zeroVal(t)
	}
	switch c.Value.Kind() {
	case constant.Bool:
		return BoolLit(constant.BoolVal(c.Value))
	case constant.String:
		return strLit(constant.StringVal(c.Value))
	case constant.Int:
		n, _ := new(big.Int).SetString(c.Value.ExactString(), 10)
		return BigLit(n)
	case constant.Float:
		if b, ok := under(t).(*types.Basic); ok && b.Info()&types.IsInteger != 0 {
			n, _ := new(big.Int).SetString(constant.ToInt(c.Value).ExactString(), 10)
			return BigLit(n)
		}
		return Const(freshName("float"), SInt)
	}
	panic(unsupported("const " + c.String()))
}

// ---- memory ------------------------------------------------------------------

func (e *Exec) setHeap(st *State, name string, sort Sort, val *Term) {
	// the definition is sent to the solver lazily, when the constant first
	// occurs in a formula (ensureDecls)
	c := Const(freshName(name+"@"), sort)
	constDefs[c] = val
	constFacts[c.Op] = []*Term{mk("=", SBool, c, val)}
	st.heaps[name] = c
}

// havocHeap replaces the heap by an unconstrained version
func (e *Exec) havocHeap(st *State, name string, sort Sort) *Term {
	c := Const(freshName(name+"@h"), sort)
	st.heaps[name] = c
	return c
}

func (e *Exec) fieldAddr(addr Val, structT types.Type, idx int) Val {
	switch a := addr.(type) {
	case *LocalAddr:
		return &LocalAddr{cell: a.cell, path: append(append([]int(nil), a.path...), idx)}
	case *Term:
		ft := under(structT).(*types.Struct).Field(idx).Type()
		if isComposite(ft) {
			return faTerm(structT, idx, a)
		}
		h, s, _ := fieldHeap(structT, idx)
		return &HeapAddr{heap: h, sort: s, idx: a}
	}
	panic(unsupported(fmt.Sprintf("fieldAddr on %T", addr)))
}

func (e *Exec) load(st *State, addr Val, t types.Type) Val {
	switch a := addr.(type) {
	case *LocalAddr:
		return pathGet(a.cell.v, a.path)
	case *HeapAddr:
		v := Select(st.heap(a.heap, a.sort), a.idx)
		e.assumeWf(st, v, t)
		e.assumeNonNull(a.heap, v)
		return v
	case *Term:
		switch u := under(t).(type) {
		case *types.Struct:
			sv := &StructVal{T: t, F: make([]Val, u.NumFields())}
			for i := 0; i < u.NumFields(); i++ {
				sv.F[i] = e.load(st, e.fieldAddr(a, t, i), u.Field(i).Type())
			}
			return sv
		case *types.Array:
			if u.Len() > 32 {
				panic(unsupported("load of large array"))
			}
			av := &ArrayVal{T: t, E: make([]Val, u.Len())}
			for i := range av.E {
				av.E[i] = e.load(st, El(a, IntLit(int64(i))), u.Elem())
			}
			return av
		}
		h, s := cellHeap(t)
		v := Select(st.heap(h, s), a)
		e.assumeWf(st, v, t)
		e.assumeNonNull(h, v)
		return v
	}
	panic(unsupported(fmt.Sprintf("load from %T", addr)))
}

func (e *Exec) assumeWf(st *State, v *Term, t types.Type) {
	if v.IsLit() || v.Op == "mkslice" || v.Op == "mkiface" || v == EmptyStr {
		return
	}
	if len(v.Args) == 0 && !strings.Contains(v.Op, "@") {
		// plain symbolic constants got their facts when created
		return
	}
	e.assumeOnce(v, func() *Term { return e.wfTerm(st, v, t) })
}

func (e *Exec) store(st *State, addr Val, t types.Type, v Val) {
	switch a := addr.(type) {
	case *LocalAddr:
		a.cell.v = pathSet(a.cell.v, a.path, v)
		return
	case *HeapAddr:
		e.setHeap(st, a.heap, a.sort, Store(st.heap(a.heap, a.sort), a.idx, e.term(v)))
		return
	case *Term:
		switch u := under(t).(type) {
		case *types.Struct:
			sv := v.(*StructVal)
			for i := 0; i < u.NumFields(); i++ {
				e.store(st, e.fieldAddr(a, t, i), u.Field(i).Type(), sv.F[i])
			}
			return
		case *types.Array:
			av := v.(*ArrayVal)
			for i := range av.E {
				e.store(st, El(a, IntLit(int64(i))), u.Elem(), av.E[i])
			}
			return
		}
		h, s := cellHeap(t)
		e.setHeap(st, h, s, Store(st.heap(h, s), a, e.term(v)))
		return
	}
	panic(unsupported(fmt.Sprintf("store to %T", addr)))
}

// term: a Val that must be an SMT term (escaping local addresses are out of subset)
func (e *Exec) term(v Val) *Term {
	switch x := v.(type) {
	case *Term:
		return x
	case *LocalAddr:
		panic(unsupported("address of local variable " + x.cell.name + " escapes"))
	case *HeapAddr:
		panic(unsupported("interior pointer to scalar field escapes: " + x.heap))
	}
	panic(unsupported(fmt.Sprintf("term of %T", v)))
}

// newObject allocates a fresh heap object of type t and returns its ref.
func (e *Exec) newObject(st *State, name string, t types.Type, init Val) *Term {
	r := Const(freshName("r."+name), SInt)
	freshRefs[r] = true
	st.alloc = Add(st.alloc, IntLit(1))
	constFacts[r.Op] = []*Term{And(Gt(r, IntLit(0)), Eq(App("rkind", SInt, r), IntLit(0)), Eq(App("birth", SInt, r), st.alloc))}
	if t != nil {
		if arr, ok := under(t).(*types.Array); ok && arr.Len() > 32 {
			return r // contents unconstrained
		}
		if init == nil {
			init = zeroVal(t)
		}
		e.store(st, r, t, init)
		e.freshLocks(st, r, t)
	}
	return r
}

// freshLocks: the mutexes inside a newly allocated object are not held
func (e *Exec) freshLocks(st *State, r *Term, t types.Type) {
	s, ok := under(t).(*types.Struct)
	if !ok {
		return
	}
	for i := 0; i < s.NumFields(); i++ {
		ft := s.Field(i).Type()
		if n, ok := ft.(*types.Named); ok && n.Obj().Pkg() != nil && n.Obj().Pkg().Path() == "sync" && (n.Obj().Name() == "Mutex" || n.Obj().Name() == "RWMutex") {
			m := faTerm(t, i, r)
			e.setGhost(st, "held", SBool, m, TFalse)
			e.setGhost(st, "rheld", SBool, m, TFalse)
		} else if _, isS := under(ft).(*types.Struct); isS {
			e.freshLocks(st, faTerm(t, i, r), ft)
		}
	}
}

// element address of slice s at index i (no bounds check here)
func elemRef(s *Term, i *Term) *Term { return El(SlArr(s), Add(SlOff(s), i)) }

func fnRefTerm(f *ssa.Function) *Term {
	name := "|fn!" + strings.NewReplacer("|", "!", "\\", "!").Replace(f.String()) + "|"
	t := Const(name, SInt)
	if _, ok := constFacts[name]; !ok {
		fnIDs[name] = len(fnIDs) + 1
		constFacts[name] = []*Term{Gt(t, IntLit(0)), Eq(App("fnid", SInt, t), IntLit(int64(fnIDs[name]))), Eq(App("rkind", SInt, t), IntLit(3))}
		fnByRef[t] = f
	}
	return t
}

var fnIDs = map[string]int{}
var fnByRef = map[*Term]*ssa.Function{}

func globalRef(g *ssa.Global) *Term {
	name := "|g!" + strings.NewReplacer("|", "!", "\\", "!").Replace(g.String()) + "|"
	t := Const(name, SInt)
	if _, ok := constFacts[name]; !ok {
		globIDs[name] = len(globIDs) + 1
		constFacts[name] = []*Term{Gt(t, IntLit(0)), Eq(App("rkind", SInt, t), IntLit(4)), Eq(App("gid", SInt, t), IntLit(int64(globIDs[name])))}
	}
	return t
}

var globIDs = map[string]int{}

// assumeNonNull applies the trusted `nonnull` type invariants of the contract file
func (e *Exec) assumeNonNull(heap string, v *Term) {
	if e.db.nonnullH == nil {
		e.db.nonnullH = map[string]bool{}
		for _, d := range e.db.nonnull {
			m := map[string]Sort{}
			e.addNamedHeap(strings.Replace(d, "elems(", "cell(", 1), nil, m)
			for h := range m {
				e.db.nonnullH[h] = true
			}
		}
	}
	if e.db.nonnullH[heap] && v.S == SInt && !v.IsLit() {
		e.assumeOnce(Neq(v, IntLit(0)), func() *Term { return Neq(v, IntLit(0)) })
	}
}
