package main

import (
	"fmt"
	"os"
	"time"
	"go/token"
	"go/types"
	"math/big"
	"sort"
	"strings"

	"golang.org/x/tools/go/ssa"
)

type Oblig struct {
	Name     string
	Class    string
	Fn       string
	Tags     []string
	Inst     int // path instances checked
	Failed   int
	Undec    int
	By       map[string]int
	Secs     float64
	Model    string
	Script   string
	Detail   string
	FirstPos string
	Cex      *Cex
}

type Exec struct {
	P        *Program
	sol      *Solver
	db       *ContractDB
	top      *ssa.Function
	topC     *Contract
	obligs   map[string]*Oblig
	order    []string
	paths    int
	retPaths int
	excPaths int
	siteOrd  map[ssa.Instruction]int
	budget   int
	onceLv   []map[*Term]bool
	inlined  map[string]bool
	usedExt  map[string]bool
	usedCtr  map[string]bool
	maxDepth int
	errs     []string
	curTags  []string
	safeTags []string
	loops    map[*ssa.Function]*LoopInfo
	shape    string
	shapeObj *Shape
	predLv   [][]*Term // predicate applications assumed positively, per solver level
	evalFrozen bool // model walk in progress: no check-sat between evaluations
	refined   map[string]bool // predicate unfoldings added while refining a candidate model
	noAssume bool // the goal being checked is not assumed afterwards (lockset obligations)
	witLv    [][]*Term // witness constants of skolemised assumptions, per solver level
	ghostOld *Snapshot
	cexHook  func(e *Exec, st *State, o *Oblig) *Cex
	recvIface types.Type
	shapeVars map[string]*specVar
	pendingBindings []Val
	started    time.Time
	wallBudget time.Duration
	budgetHit  bool
}

const maxPaths = 6000
const unrollLimit = 12

func (e *Exec) assumeRaw(t *Term) {
	if t == TTrue {
		return
	}
	e.notePredApps(t)
	if hasQuant(t, map[*Term]bool{}) {
		var made []*Term
		t = skolemize(t, false, true, &made)
		if len(made) > 0 {
			e.witLv[len(e.witLv)-1] = append(e.witLv[len(e.witLv)-1], made...)
		}
	}
	e.ensureDecls(t)
	e.sol.Assert(t)
}

func (e *Exec) assume(t *Term) { e.assumeRaw(t) }

func (e *Exec) assumeOnce(key *Term, f func() *Term) {
	for _, m := range e.onceLv {
		if m[key] {
			return
		}
	}
	e.onceLv[len(e.onceLv)-1][key] = true
	e.assume(f())
}

func (e *Exec) push() {
	e.sol.Push()
	e.onceLv = append(e.onceLv, map[*Term]bool{})
	e.witLv = append(e.witLv, nil)
	e.predLv = append(e.predLv, nil)
}
func (e *Exec) pop() {
	e.sol.Pop()
	e.onceLv = e.onceLv[:len(e.onceLv)-1]
	e.witLv = e.witLv[:len(e.witLv)-1]
	e.predLv = e.predLv[:len(e.predLv)-1]
}

var builtinOps = map[string]bool{"and": true, "or": true, "not": true, "=>": true, "ite": true, "=": true, "+": true, "-": true, "*": true, "div": true, "mod": true,
	"<": true, "<=": true, ">": true, ">=": true, "select": true, "store": true, "mkslice": true, "sarr": true, "soff": true, "slen": true, "scap": true,
	"mkiface": true, "itid": true, "iref": true, "iint": true, "ibool": true, "istr": true, "distinct": true, "forall": true, "exists": true,
	"el": true, "el_arr": true, "el_idx": true, "rkind": true, "rroot": true, "birth": true, "s_len": true, "s_at": true, "s_id": true, "fnid": true, "gid": true, "true": true, "false": true, "str!empty": true}

// ensureDecls declares every symbol of t that is not yet declared in the
// current solver scope chain and asserts the facts registered for it.
func (e *Exec) ensureDecls(t *Term) {
	seen := map[*Term]bool{}
	var pending []*Term
	var walk func(t *Term)
	walk = func(t *Term) {
		if seen[t] {
			return
		}
		seen[t] = true
		for _, a := range t.Args {
			walk(a)
		}
		for _, p := range t.Pats {
			for _, x := range p {
				walk(x)
			}
		}
		if len(t.Args) == 0 {
			if t.IsLit() || builtinOps[t.Op] || boundVars[t] {
				return
			}
			if !e.sol.declared(t.Op) {
				e.sol.DeclareConst(t)
				pending = append(pending, constFacts[t.Op]...)
			}
			return
		}
		if builtinOps[t.Op] {
			return
		}
		if !e.sol.declared(t.Op) {
			sig, ok := funSigs[t.Op]
			if !ok {
				// infer from use
				var as []Sort
				for _, a := range t.Args {
					as = append(as, a.S)
				}
				sig.args, sig.res = as, t.S
			}
			e.sol.DeclareFun(t.Op, sig.args, sig.res)
			pending = append(pending, funAxioms[t.Op]...)
		}
	}
	walk(t)
	for _, f := range pending {
		e.ensureDecls(f)
		e.sol.AssertAxiom(f)
	}
}

// ---- obligations --------------------------------------------------------------

func (e *Exec) siteName(fr *Frame, class string, instr ssa.Instruction, text string) string {
	fn := shortName(e.top)
	if text == "" && instr != nil {
		text = e.P.srcLine(instr.Pos())
		if text == "" {
			text = e.P.srcLine(nearestPos(instr))
		}
	}
	where := ""
	if fr != nil && fr.fn != e.top {
		where = "@" + shortName(fr.fn)
	}
	return fmt.Sprintf("%s/%s%s:%s", fn, class, where, text)
}

func nearestPos(instr ssa.Instruction) token.Pos {
	b := instr.Block()
	idx := -1
	for i, in := range b.Instrs {
		if in == instr {
			idx = i
		}
	}
	for d := 1; d < len(b.Instrs); d++ {
		for _, j := range []int{idx - d, idx + d} {
			if j >= 0 && j < len(b.Instrs) && b.Instrs[j].Pos().IsValid() {
				return b.Instrs[j].Pos()
			}
		}
	}
	return token.NoPos
}

func (e *Exec) oblig(name, class string, tags []string) *Oblig {
	o, ok := e.obligs[name]
	if !ok {
		o = &Oblig{Name: name, Class: class, Fn: shortName(e.top), Tags: tags, By: map[string]int{}}
		e.obligs[name] = o
		e.order = append(e.order, name)
	}
	return o
}

// check proves goal on the current path; afterwards the goal is assumed.
func (e *Exec) check(st *State, fr *Frame, class string, instr ssa.Instruction, text string, goal *Term) bool {
	tags := e.curTags
	if strings.HasPrefix(class, "SAFE") || class == "EXC" {
		if len(e.safeTags) > 0 {
			tags = e.safeTags
		}
	}
	if onlyProp != "" && !hasTag(tags, onlyProp) && class != "VACUITY" && class != "UNWIND" && class != "BUDGET" {
		// this run decides the obligations tagged with its own property; the others
		// are proved by the runs of their properties and are assumptions here
		if !e.noAssume {
			e.ensureDecls(goal)
			e.assume(goal)
		}
		return true
	}
	if len(onlyClasses) > 0 && !classSelected(class) {
		// this run decides other obligation classes only (GOVC_CLASSES): the goal is
		// taken as an assumption here and proved by the run of its own property
		if !e.noAssume {
			e.ensureDecls(goal)
			e.assume(goal)
		}
		return true
	}
	name := e.siteName(fr, class, instr, text)
	o := e.oblig(name, class, tags)
	o.Inst++
	if instr != nil && o.FirstPos == "" {
		p := instr.Pos()
		if !p.IsValid() {
			p = nearestPos(instr)
		}
		o.FirstPos = e.P.fset.Position(p).String()
	}
	if goal == TTrue {
		o.By["simplifier"]++
		return true
	}
	orig := goal
	var sks []*Term
	goal = skolemize(goal, true, true, &sks)
	e.ensureDecls(goal)
	e.ensureDecls(orig)
	if os.Getenv("GOVC_TRACE") != "" {
		fmt.Fprintf(os.Stderr, "OBLIG %s\n", name)
	}
	if o.Failed+o.Undec > 0 && o.Inst > 6 {
		// already failing: do not spend solver time on further path instances
		o.Undec++
		if !e.noAssume {
			e.assume(orig)
		}
		return false
	}
	cr := e.prove(st, o, goal, sks)
	o.Secs += cr.Secs
	ok := cr.Res == "unsat"
	if ok {
		o.By[cr.By]++
	} else {
		if cr.Res == "sat" {
			o.Failed++
		} else {
			o.Undec++
		}
		if o.Script == "" {
			o.Script = lastScript
			o.Detail = cr.Res + " " + cr.Detail + "\npath: " + strings.Join(st.trace, " > ")
			o.Model = cr.Model
		}
	}
	if !e.noAssume {
		e.assume(orig)
	}
	return ok
}

// skolemGoal replaces universally quantified variables in positive positions of
// a proof goal by fresh constants (z3 handles the named constants far better
// than its own skolemization of a negated quantifier in incremental mode).
func skolemGoal(g *Term) *Term {
	switch g.Op {
	case "and":
		out := make([]*Term, len(g.Args))
		for i, a := range g.Args {
			out[i] = skolemGoal(a)
		}
		return And(out...)
	case "=>":
		return Implies(g.Args[0], skolemGoal(g.Args[1]))
	case "forall":
		m := map[*Term]*Term{}
		for _, v := range g.Bind {
			m[v] = Const(freshName("sk."+strings.Trim(v.Op, "|")), v.S)
		}
		return skolemGoal(Subst(g.Args[0], m))
	}
	return g
}

// skolemsOf lists the Int skolem constants of a skolemised goal.
func skolemsOf(g *Term) []*Term {
	seen := map[*Term]bool{}
	var out []*Term
	var walk func(t *Term)
	walk = func(t *Term) {
		if seen[t] {
			return
		}
		seen[t] = true
		if len(t.Args) == 0 && t.S == SInt && strings.HasPrefix(strings.Trim(t.Op, "|"), "sk.") {
			out = append(out, t)
		}
		for _, a := range t.Args {
			walk(a)
		}
	}
	walk(g)
	if len(out) > 6 {
		out = out[:6]
	}
	return out
}

// prove: the live solver first; then, with the quantified hypotheses of the
// path instantiated at the skolem constants of the goal; then the other solvers
// on the stand-alone script. The counterexample hook runs only when all of
// them have failed, on a live model of the first solver.
func (e *Exec) prove(st *State, o *Oblig, goal *Term, gsks []*Term) CheckResult {
	s := e.sol
	t0 := time.Now()
	full := s.timeout
	// the live solver either answers at once or not at all: short limits for its
	// two attempts, the full limit for the stand-alone fall-backs
	if full > 2000 {
		s.timeout = 2000
	}
	defer func() { s.timeout = full }()
	cr, script := s.primary(goal)
	if cr.Res == "unsat" {
		cr.Secs = time.Since(t0).Seconds()
		return cr
	}
	if full > 3000 {
		s.timeout = 3000
	}
	if o.Failed+o.Undec > 0 {
		// the obligation has already failed on another path: one attempt only
		lastScript = script
		cr.Secs = time.Since(t0).Seconds()
		return cr
	}
	pushed := false
	sks := skolemsOf(goal)
	// index terms at which the quantified hypotheses of the path are
	// instantiated: the skolem constants of the goal, 0 and 1 (first elements: the
	// solver's patterns contain offset + k, which does not match offset itself),
	// and the integer registers of the current frames
	at := append([]*Term{}, sks...)
	for _, k := range sks {
		if len(sks) <= 3 {
			at = append(at, Add(k, IntLit(1)), Sub(k, IntLit(1)))
		}
	}
	at = append(at, IntLit(0), IntLit(1))
	for _, c := range e.candidates(st, nil) {
		if len(at) < 20 {
			at = append(at, c)
		}
	}
	insts := s.instancesAt(at)
	hasEx := hasQuant(goal, map[*Term]bool{})
	if len(insts) > 0 || hasEx {
		{
			e.push()
			pushed = true
			for _, x := range insts {
				e.assumeRaw(x) // existentials of the instances become witnesses
			}
			if cands := e.candidates(st, sks); len(cands) > 0 && hasEx {
				goal = strengthen(goal, true, cands, 0)
				e.ensureDecls(goal)
			}
			cr2, script2 := s.primary(goal)
			if pat := os.Getenv("GOVC_DUMP_PROVED"); pat != "" && cr2.Res == "unsat" && strings.Contains(o.Name, pat) {
				os.WriteFile("/var/tmp/proved.smt2", []byte(s.Script("(assert (not "+goal.String()+"))")), 0o644)
			}
			if cr2.Res == "unsat" {
				e.pop()
				cr2.By = "z3-new+inst"
				cr2.Secs = time.Since(t0).Seconds()
				return cr2
			}
			cr, script = cr2, script2
		}
	}
	s.timeout = full
	if cr.Res == "unknown" || cr.Res == "error" {
		cr = s.fallbacksN(script, cr, 1)
	}
	if cr.Res != "unsat" && len(predDefs) > 0 {
		// unfold the assumed predicate applications (three levels), Go-side
		if !pushed {
			e.push()
			pushed = true
		}
		if e.unfoldRounds(at) > 0 {
			cr4, script4 := s.primary(goal)
			if cr4.Res == "unknown" || cr4.Res == "error" {
				cr4 = s.fallbacksN(script4, cr4, 1)
			}
			if cr4.Res == "unsat" {
				cr = cr4
				cr.By += "+unfold"
			} else {
				script = script4
			}
		}
	}
	if cr.Res != "unsat" {
		// last resort: a second round of instances, for the quantifiers nested in
		// the instances of the first (kept apart: the extra facts slow the easy
		// cases), and the solvers once more with four times the limit
		if pushed {
			for _, x := range s.instancesFrom(len(s.qlv)-1, at) {
				e.assumeRaw(x)
			}
		}
		cr3, script3 := s.primary(goal)
		if cr3.Res == "unknown" || cr3.Res == "error" {
			cr3 = s.fallbacks(script3, cr3)
		}
		if cr3.Res == "unsat" {
			cr = cr3
		} else {
			script = script3
		}
	}
	if cr.Res != "unsat" {
		lastScript = script
		if e.cexHook != nil && o.Cex == nil {
			s.Push()
			s.raw("(assert (not " + goal.String() + "))")
			if r, _ := s.checkRaw(s.timeout); r == "sat" || r == "unknown" {
				o.Cex = e.cexHook(e, st, o)
			}
			s.Pop()
		}
	}
	if pat := os.Getenv("GOVC_DUMP_OBLIG"); pat != "" && strings.Contains(o.Name, pat) {
		dumpN++
		os.MkdirAll("/var/tmp/dumps", 0o755)
		os.WriteFile(fmt.Sprintf("/var/tmp/dumps/%d-%d-%s.smt2", os.Getpid(), dumpN, cr.Res), []byte("; "+o.Name+" by "+cr.By+"\n"+script), 0o644)
	}
	if pushed {
		e.pop()
		if cr.Res == "unsat" {
			cr.By += "+inst"
		}
	}
	cr.Secs = time.Since(t0).Seconds()
	return cr
}

var dumpN int

func (e *Exec) fail(name, class, detail string) {
	o := e.oblig(name, class, e.curTags)
	o.Inst++
	o.Undec++
	if o.Detail == "" {
		o.Detail = detail
	}
}

// ---- values -------------------------------------------------------------------

func (e *Exec) val(fr *Frame, v ssa.Value) Val {
	switch x := v.(type) {
	case *ssa.Const:
		return e.constVal(x)
	case *ssa.Function:
		return fnRefTerm(x)
	case *ssa.Global:
		return globalRef(x)
	case *ssa.Builtin:
		panic(unsupported("builtin as value " + x.Name()))
	}
	r, ok := fr.env[v]
	if !ok {
		panic(fmt.Sprintf("no value for %s (%s) in %s", v.Name(), v, fr.fn))
	}
	return r
}

func (e *Exec) tval(fr *Frame, v ssa.Value) *Term { return e.term(e.val(fr, v)) }

// ---- running ------------------------------------------------------------------

type pathEnd struct{}

func (e *Exec) run(st *State) {
	for {
		if e.paths > maxPaths {
			e.fail(shortName(e.top)+"/BUDGET:paths", "BUDGET", "path budget exceeded")
			return
		}
		if time.Since(e.started) > e.wallBudget {
			if !e.budgetHit {
				e.budgetHit = true
				e.fail(shortName(e.top)+"/BUDGET:time", "BUDGET", "wall-clock budget for one function exceeded")
			}
			return
		}
		if len(st.frames) == 0 {
			return
		}
		fr := st.top()
		if fr.unwind {
			if e.stepUnwind(st, fr) {
				return
			}
			continue
		}
		instr := fr.blk.Instrs[fr.pc]
		if e.step(st, fr, instr) {
			return
		}
	}
}

// split explores cond and !cond, each in its own solver scope. f is applied to
// the (cloned) state before running it.
func (e *Exec) split(st *State, cond *Term, fT, fF func(st *State)) {
	e.ensureDecls(cond)
	type br struct {
		c *Term
		f func(st *State)
	}
	brs := []br{{cond, fT}, {Not(cond), fF}}
	firstInfeasible := false
	for i, b := range brs {
		if b.c == TFalse || b.f == nil {
			continue
		}
		e.push()
		e.assume(b.c)
		feasible := b.c == TTrue || (i == 1 && firstInfeasible) || e.sol.Feasible()
		if feasible {
			s2 := st
			if i == 0 && brs[1].c != TFalse && brs[1].f != nil {
				s2 = st.clone()
			}
			b.f(s2)
			e.run(s2)
		} else if i == 0 {
			firstInfeasible = true
		}
		e.pop()
	}
}

// forkN: generic n-way nondeterministic choice with assumptions
func (e *Exec) forkN(st *State, conds []*Term, fs []func(st *State)) {
	for i := range conds {
		if conds[i] == TFalse {
			continue
		}
		e.ensureDecls(conds[i])
		e.push()
		e.assume(conds[i])
		if conds[i] == TTrue || e.sol.Feasible() {
			s2 := st
			if i < len(conds)-1 {
				s2 = st.clone()
			}
			fs[i](s2)
			e.run(s2)
		}
		e.pop()
	}
}

func (e *Exec) gotoBlock(st *State, fr *Frame, b *ssa.BasicBlock) {
	fr.prev = fr.blk
	fr.blk = b
	fr.pc = 0
}

// step executes one instruction; returns true when the path has been fully
// handled (forked or ended).
func (e *Exec) step(st *State, fr *Frame, instr ssa.Instruction) bool {
	// loop handling at block entry
	if fr.pc == 0 {
		if li := e.loopInfo(fr.fn); li != nil {
			if lp, ok := li.byHeader[fr.blk.Index]; ok {
				if done := e.enterLoopHeader(st, fr, lp); done {
					return true
				}
			}
		}
	}
	switch i := instr.(type) {
	case *ssa.DebugRef:
	case *ssa.Alloc:
		if i.Heap {
			t := i.Type().Underlying().(*types.Pointer).Elem()
			fr.env[i] = e.newObject(st, i.Comment, t, nil)
		} else {
			t := i.Type().Underlying().(*types.Pointer).Elem()
			c := &LocalCell{v: zeroVal(t), T: t, name: i.Comment}
			fr.locals[i] = c
			fr.env[i] = &LocalAddr{cell: c}
		}
	case *ssa.Store:
		addr := e.val(fr, i.Addr)
		e.nilCheck(st, fr, i, addr)
		e.checkProtected(st, fr, i, addr, true)
		e.store(st, addr, i.Val.Type(), e.val(fr, i.Val))
	case *ssa.UnOp:
		fr.env[i] = e.unop(st, fr, i)
	case *ssa.BinOp:
		fr.env[i] = e.binop(st, fr, i, i.Op, e.val(fr, i.X), e.val(fr, i.Y), i.X.Type())
	case *ssa.FieldAddr:
		x := e.val(fr, i.X)
		e.nilCheck(st, fr, i, x)
		st0 := i.X.Type().Underlying().(*types.Pointer).Elem()
		fr.env[i] = e.fieldAddr(x, st0, i.Field)
	case *ssa.Field:
		x := e.val(fr, i.X).(*StructVal)
		fr.env[i] = x.F[i.Field]
	case *ssa.IndexAddr:
		fr.env[i] = e.indexAddr(st, fr, i)
	case *ssa.Index:
		fr.env[i] = e.index(st, fr, i)
	case *ssa.Slice:
		fr.env[i] = e.sliceOp(st, fr, i)
	case *ssa.MakeSlice:
		fr.env[i] = e.makeSlice(st, fr, i)
	case *ssa.MakeMap:
		fr.env[i] = e.makeMap(st, fr, i)
	case *ssa.MapUpdate:
		e.mapUpdate(st, fr, i)
	case *ssa.Lookup:
		fr.env[i] = e.lookup(st, fr, i)
	case *ssa.MakeInterface:
		fr.env[i] = e.makeIface(st, i.X.Type(), e.val(fr, i.X))
	case *ssa.ChangeInterface:
		fr.env[i] = e.val(fr, i.X)
	case *ssa.ChangeType:
		fr.env[i] = e.val(fr, i.X)
	case *ssa.Convert:
		fr.env[i] = e.convert(st, fr, i)
	case *ssa.TypeAssert:
		fr.env[i] = e.typeAssert(st, fr, i)
	case *ssa.Extract:
		fr.env[i] = e.val(fr, i.Tuple).(TupleVal)[i.Index]
	case *ssa.MakeClosure:
		fn := i.Fn.(*ssa.Function)
		r := e.newObject(st, "clo."+fn.Name(), nil, nil)
		var bs []Val
		for _, b := range i.Bindings {
			bs = append(bs, e.val(fr, b))
		}
		st.closures[r] = &Closure{fn: fn, bindings: bs}
		e.assume(Eq(App("fnid", SInt, r), IntLit(int64(e.fnID(fn)))))
		fr.env[i] = r
	case *ssa.Phi:
		for k, p := range fr.blk.Preds {
			if p == fr.prev {
				fr.env[i] = e.val(fr, i.Edges[k])
			}
		}
	case *ssa.Call:
		return e.callInstr(st, fr, i, &i.Call, func(st *State, res Val) {
			f := st.top()
			f.env[i] = res
			f.pc++
		})
	case *ssa.Defer:
		d := &Deferred{common: &i.Call, site: i}
		e.evalCallee(st, fr, &i.Call, d)
		fr.defers = append(fr.defers, d)
	case *ssa.RunDefers:
		if n := len(fr.defers); n > 0 {
			d := fr.defers[n-1]
			fr.defers = fr.defers[:n-1]
			return e.invokeDeferred(st, fr, d, func(st *State, res Val) {})
		}
	case *ssa.Go:
		e.goStmt(st, fr, i)
	case *ssa.Select:
		fr.env[i] = e.selectOp(st, fr, i)
	case *ssa.Range:
		fr.env[i] = e.rangeOp(st, fr, i)
	case *ssa.Next:
		return e.nextOp(st, fr, i)
	case *ssa.Jump:
		e.gotoBlock(st, fr, fr.blk.Succs[0])
		return false
	case *ssa.If:
		c := e.tval(fr, i.Cond)
		tb, fb := fr.blk.Succs[0], fr.blk.Succs[1]
		if c == TTrue {
			e.gotoBlock(st, fr, tb)
			return false
		}
		if c == TFalse {
			e.gotoBlock(st, fr, fb)
			return false
		}
		e.split(st, c,
			func(s *State) { e.gotoBlock(s, s.top(), tb) },
			func(s *State) { e.gotoBlock(s, s.top(), fb) })
		return true
	case *ssa.Return:
		return e.doReturn(st, fr, i)
	case *ssa.Panic:
		e.explicitPanic(st, fr, i)
		return false
	default:
		panic(unsupported(fmt.Sprintf("instruction %T: %s", instr, instr)))
	}
	if v, ok := instr.(ssa.Value); ok {
		if r, has := fr.env[v]; has {
			fr.env[v] = e.compact(r)
		}
	}
	fr.pc++
	return false
}

// compact names large terms so that printed formulas stay linear in size
func (e *Exec) compact(v Val) Val {
	switch x := v.(type) {
	case *Term:
		if len(x.Args) == 0 || treeSize(x) < 64 {
			return x
		}
		c := Const(freshName("v"), x.S)
		constDefs[c] = x
		constFacts[c.Op] = []*Term{mk("=", SBool, c, x)}
		return c
	case *StructVal:
		n := &StructVal{T: x.T, F: make([]Val, len(x.F))}
		for i, f := range x.F {
			n.F[i] = e.compact(f)
		}
		return n
	case TupleVal:
		n := make(TupleVal, len(x))
		for i, f := range x {
			n[i] = e.compact(f)
		}
		return n
	}
	return v
}

func (e *Exec) fnID(f *ssa.Function) int {
	t := fnRefTerm(f)
	return fnIDs[t.Op]
}

func (e *Exec) nilCheck(st *State, fr *Frame, instr ssa.Instruction, addr Val) {
	switch a := addr.(type) {
	case *Term:
		if freshRefs[a] || a.Op == "el" || strings.HasPrefix(a.Op, "|fa!") || strings.HasPrefix(a.Op, "|g!") {
			return
		}
		e.check(st, fr, "SAFE.nil", instr, "", Neq(a, IntLit(0)))
	case *HeapAddr, *LocalAddr:
	}
}

func (e *Exec) unop(st *State, fr *Frame, i *ssa.UnOp) Val {
	x := e.val(fr, i.X)
	switch i.Op {
	case token.MUL:
		e.nilCheck(st, fr, i, x)
		e.checkProtected(st, fr, i, x, false)
		return e.load(st, x, i.Type())
	case token.NOT:
		return Not(e.term(x))
	case token.SUB:
		return e.wrap(Neg(e.term(x)), i.Type())
	case token.XOR:
		// ^x = -x-1 for signed; for unsigned max-x
		lo, hi, _, signed, _ := intRange(i.Type())
		_ = lo
		if signed {
			return Sub(Neg(e.term(x)), IntLit(1))
		}
		h, _ := new(big.Int).SetString(hi, 10)
		return Sub(BigLit(h), e.term(x))
	case token.ARROW:
		panic(unsupported("channel receive"))
	}
	panic(unsupported("unop " + i.Op.String()))
}

// wrap applies two's complement wrap-around for types narrower than 64 bits.
// 64-bit arithmetic is treated as mathematical (assumption A-ARITH).
func (e *Exec) wrap(t *Term, typ types.Type) *Term {
	lo, hi, bits, signed, ok := intRange(typ)
	if !ok || bits >= 64 {
		return t
	}
	return wrapTo(t, lo, hi, bits, signed)
}

func wrapTo(t *Term, lo, hi string, bits int, signed bool) *Term {
	m := new(big.Int).Lsh(big.NewInt(1), uint(bits))
	if t.IsLit() {
		v := new(big.Int).Mod(t.LitVal(), m)
		if signed {
			h, _ := new(big.Int).SetString(hi, 10)
			if v.Cmp(h) > 0 {
				v.Sub(v, m)
			}
		}
		return BigLit(v)
	}
	if !signed {
		return Mod(t, BigLit(m))
	}
	half := new(big.Int).Rsh(m, 1)
	// ((t + half) mod m) - half
	return Sub(Mod(Add(t, BigLit(half)), BigLit(m)), BigLit(half))
}

func (e *Exec) binop(st *State, fr *Frame, instr ssa.Instruction, op token.Token, xv, yv Val, xt types.Type) Val {
	// struct / array equality
	if sx, ok := xv.(*StructVal); ok {
		sy := yv.(*StructVal)
		var cs []*Term
		for k := range sx.F {
			cs = append(cs, e.term(e.binop(st, fr, instr, token.EQL, sx.F[k], sy.F[k], under(sx.T).(*types.Struct).Field(k).Type())))
		}
		r := And(cs...)
		if op == token.NEQ {
			return Not(r)
		}
		return r
	}
	x, y := e.term(xv), e.term(yv)
	s := x.S
	switch op {
	case token.EQL:
		return Eq(x, y)
	case token.NEQ:
		return Neq(x, y)
	}
	if s == SStr {
		switch op {
		case token.ADD:
			return e.strCat(x, y)
		case token.LSS, token.LEQ, token.GTR, token.GEQ:
			declFun("s_lt", SBool, SStr, SStr)
			lt := func(a, b *Term) *Term { return App("s_lt", SBool, a, b) }
			switch op {
			case token.LSS:
				return lt(x, y)
			case token.GTR:
				return lt(y, x)
			case token.LEQ:
				return Not(lt(y, x))
			default:
				return Not(lt(x, y))
			}
		}
	}
	if s == SBool {
		switch op {
		case token.AND, token.LAND:
			return And(x, y)
		case token.OR, token.LOR:
			return Or(x, y)
		}
	}
	typ := xt
	switch op {
	case token.ADD:
		return e.wrap(Add(x, y), typ)
	case token.SUB:
		return e.wrap(Sub(x, y), typ)
	case token.MUL:
		return e.wrap(Mul(x, y), typ)
	case token.QUO:
		e.check(st, fr, "SAFE.div", instr, "", Neq(y, IntLit(0)))
		// Go truncates toward zero
		q := Ite(Ge(x, IntLit(0)), Div(x, y), Neg(Div(Neg(x), y)))
		if y.IsLit() && y.LitVal().Sign() > 0 {
			return e.wrap(q, typ)
		}
		return e.wrap(Ite(Gt(y, IntLit(0)), q, Ite(Ge(x, IntLit(0)), Neg(Div(x, Neg(y))), Div(Neg(x), Neg(y)))), typ)
	case token.REM:
		e.check(st, fr, "SAFE.div", instr, "", Neq(y, IntLit(0)))
		if y.IsLit() && y.LitVal().Sign() > 0 {
			return Ite(Ge(x, IntLit(0)), Mod(x, y), Neg(Mod(Neg(x), y)))
		}
		declFun("go_rem", SInt, SInt, SInt)
		return App("go_rem", SInt, x, y)
	case token.LSS:
		return Lt(x, y)
	case token.LEQ:
		return Le(x, y)
	case token.GTR:
		return Gt(x, y)
	case token.GEQ:
		return Ge(x, y)
	case token.AND:
		if y.IsLit() {
			if r := andConst(x, y.LitVal()); r != nil {
				return r
			}
		}
		if x.IsLit() {
			if r := andConst(y, x.LitVal()); r != nil {
				return r
			}
		}
		declFun("bv_and", SInt, SInt, SInt)
		return App("bv_and", SInt, x, y)
	case token.OR:
		// (a << k) | b with 0 <= b < 2^k is a + b: recognised pattern x*2^k | y
		if x.Op == "*" && len(x.Args) == 2 && x.Args[1].IsLit() {
			m := x.Args[1].LitVal()
			if m.Sign() > 0 && new(big.Int).And(m, new(big.Int).Sub(m, big.NewInt(1))).Sign() == 0 {
				declFun("bv_or_lo", SInt, SInt, SInt)
				// sound only when 0<=y<m; otherwise uninterpreted
				return Ite(And(Le(IntLit(0), y), Lt(y, BigLit(m))), Add(x, y), App("bv_or", SInt, x, y))
			}
		}
		declFun("bv_or", SInt, SInt, SInt)
		return App("bv_or", SInt, x, y)
	case token.XOR:
		declFun("bv_xor", SInt, SInt, SInt)
		return App("bv_xor", SInt, x, y)
	case token.SHL:
		if y.IsLit() && y.LitVal().IsInt64() && y.LitVal().Int64() < 64 && y.LitVal().Sign() >= 0 {
			m := new(big.Int).Lsh(big.NewInt(1), uint(y.LitVal().Int64()))
			return e.wrapAll(Mul(x, BigLit(m)), typ)
		}
		declFun("bv_shl", SInt, SInt, SInt)
		return App("bv_shl", SInt, x, y)
	case token.SHR:
		if y.IsLit() && y.LitVal().IsInt64() && y.LitVal().Int64() < 64 && y.LitVal().Sign() >= 0 {
			m := new(big.Int).Lsh(big.NewInt(1), uint(y.LitVal().Int64()))
			return Div(x, BigLit(m)) // floor division == arithmetic shift
		}
		declFun("bv_shr", SInt, SInt, SInt)
		return App("bv_shr", SInt, x, y)
	case token.AND_NOT:
		declFun("bv_andnot", SInt, SInt, SInt)
		return App("bv_andnot", SInt, x, y)
	}
	panic(unsupported("binop " + op.String()))
}

// wrapAll wraps also 64-bit types (used for shifts, where overflow is routine)
func (e *Exec) wrapAll(t *Term, typ types.Type) *Term {
	lo, hi, bits, signed, ok := intRange(typ)
	if !ok {
		return t
	}
	return wrapTo(t, lo, hi, bits, signed)
}

// x & c for c = 2^k-1 (low mask) or c = 2^k (single bit), x >= 0
func andConst(x *Term, c *big.Int) *Term {
	if c.Sign() <= 0 {
		if c.Sign() == 0 {
			return IntLit(0)
		}
		return nil
	}
	c1 := new(big.Int).Add(c, big.NewInt(1))
	if new(big.Int).And(c1, c).Sign() == 0 {
		// low mask: x mod 2^k (valid for negative x too with SMT mod, two's complement)
		return Mod(x, BigLit(c1))
	}
	if new(big.Int).And(c, new(big.Int).Sub(c, big.NewInt(1))).Sign() == 0 {
		// single bit 2^k: ((x div 2^k) mod 2) * 2^k
		return Mul(Mod(Div(x, BigLit(c)), IntLit(2)), BigLit(c))
	}
	return nil
}

func (e *Exec) strCat(x, y *Term) *Term {
	if x == EmptyStr {
		return y
	}
	if y == EmptyStr {
		return x
	}
	declFun("s_cat", SStr, SStr, SStr)
	if _, ok := funAxioms["s_cat"]; !ok {
		a, b := BoundVar("a", SStr), BoundVar("b", SStr)
		c := App("s_cat", SStr, a, b)
		funAxioms["s_cat"] = []*Term{Forall([]*Term{a, b}, Eq(SLen(c), Add(SLen(a), SLen(b))), []*Term{c})}
	}
	return App("s_cat", SStr, x, y)
}

func (e *Exec) indexAddr(st *State, fr *Frame, i *ssa.IndexAddr) Val {
	x := e.val(fr, i.X)
	idx := e.tval(fr, i.Index)
	switch t := under(i.X.Type()).(type) {
	case *types.Slice:
		s := e.term(x)
		e.check(st, fr, "SAFE.index", i, "", And(Le(IntLit(0), idx), Lt(idx, SlLen(s))))
		return elemRef(s, idx)
	case *types.Pointer:
		arr := under(t.Elem()).(*types.Array)
		e.nilCheck(st, fr, i, x)
		e.check(st, fr, "SAFE.index", i, "", And(Le(IntLit(0), idx), Lt(idx, IntLit(arr.Len()))))
		switch a := x.(type) {
		case *LocalAddr:
			if !idx.IsLit() {
				panic(unsupported("symbolic index into local array"))
			}
			return &LocalAddr{cell: a.cell, path: append(append([]int(nil), a.path...), int(idx.LitVal().Int64()))}
		case *Term:
			return El(a, idx)
		}
	}
	panic(unsupported("indexAddr " + i.X.Type().String()))
}

func (e *Exec) index(st *State, fr *Frame, i *ssa.Index) Val {
	x := e.val(fr, i.X)
	idx := e.tval(fr, i.Index)
	switch a := x.(type) {
	case *ArrayVal:
		e.check(st, fr, "SAFE.index", i, "", And(Le(IntLit(0), idx), Lt(idx, IntLit(int64(len(a.E))))))
		if idx.IsLit() {
			return a.E[idx.LitVal().Int64()]
		}
		panic(unsupported("symbolic index into array value"))
	case *Term:
		if a.S == SStr {
			e.check(st, fr, "SAFE.index", i, "", And(Le(IntLit(0), idx), Lt(idx, SLen(a))))
			return App("s_at", SInt, a, idx)
		}
	}
	panic(unsupported("index"))
}

func (e *Exec) sliceOp(st *State, fr *Frame, i *ssa.Slice) Val {
	x := e.val(fr, i.X)
	var lo, hi, max *Term
	if i.Low != nil {
		lo = e.tval(fr, i.Low)
	} else {
		lo = IntLit(0)
	}
	if i.High != nil {
		hi = e.tval(fr, i.High)
	}
	if i.Max != nil {
		max = e.tval(fr, i.Max)
	}
	switch t := under(i.X.Type()).(type) {
	case *types.Slice:
		s := e.term(x)
		if hi == nil {
			hi = SlLen(s)
		}
		capv := SlCap(s)
		if max == nil {
			max = capv
		}
		e.check(st, fr, "SAFE.slice", i, "", And(Le(IntLit(0), lo), Le(lo, hi), Le(hi, max), Le(max, capv)))
		return MkSlice(SlArr(s), Add(SlOff(s), lo), Sub(hi, lo), Sub(max, lo))
	case *types.Basic: // string
		s := e.term(x)
		if hi == nil {
			hi = SLen(s)
		}
		e.check(st, fr, "SAFE.slice", i, "", And(Le(IntLit(0), lo), Le(lo, hi), Le(hi, SLen(s))))
		return e.strSub(s, lo, hi)
	case *types.Pointer: // *array
		arr := under(t.Elem()).(*types.Array)
		e.nilCheck(st, fr, i, x)
		n := IntLit(arr.Len())
		if hi == nil {
			hi = n
		}
		if max == nil {
			max = n
		}
		e.check(st, fr, "SAFE.slice", i, "", And(Le(IntLit(0), lo), Le(lo, hi), Le(hi, max), Le(max, n)))
		a := e.term(x)
		return MkSlice(a, lo, Sub(hi, lo), Sub(max, lo))
	}
	panic(unsupported("slice of " + i.X.Type().String()))
}

func (e *Exec) strSub(s, lo, hi *Term) *Term {
	if lo.IsLit() && lo.LitVal().Sign() == 0 && hi == SLen(s) {
		return s
	}
	declFun("s_sub", SStr, SStr, SInt, SInt)
	if _, ok := funAxioms["s_sub"]; !ok {
		a, l, h, k := BoundVar("a", SStr), BoundVar("l", SInt), BoundVar("h", SInt), BoundVar("k", SInt)
		c := App("s_sub", SStr, a, l, h)
		funAxioms["s_sub"] = []*Term{
			Forall([]*Term{a, l, h}, Implies(And(Le(IntLit(0), l), Le(l, h)), Eq(SLen(c), Sub(h, l))), []*Term{c}),
			Forall([]*Term{a, l, h, k}, Implies(And(Le(IntLit(0), k), Lt(k, Sub(h, l))), Eq(App("s_at", SInt, c, k), App("s_at", SInt, a, Add(l, k)))), []*Term{App("s_at", SInt, c, k)}),
		}
	}
	return App("s_sub", SStr, s, lo, hi)
}

func (e *Exec) makeSlice(st *State, fr *Frame, i *ssa.MakeSlice) Val {
	ln := e.tval(fr, i.Len)
	cp := e.tval(fr, i.Cap)
	e.check(st, fr, "SAFE.makeslice", i, "", And(Le(IntLit(0), ln), Le(ln, cp)))
	arr := e.newObject(st, "arr", nil, nil)
	s := MkSlice(arr, IntLit(0), ln, cp)
	// elements are zero: assumed for the fresh array (A-FRESH)
	et := under(i.Type()).(*types.Slice).Elem()
	if !isComposite(et) && !(ln.IsLit() && ln.LitVal().Sign() == 0) {
		h, hs := cellHeap(et)
		k := BoundVar("k", SInt)
		sel := Select(st.heap(h, hs), El(arr, k))
		e.assume(Forall([]*Term{k}, Implies(And(Le(IntLit(0), k), Lt(k, cp)), Eq(sel, zeroTerm(sortOf(et)))), []*Term{sel}))
	}
	return s
}

func (e *Exec) makeIface(st *State, t types.Type, v Val) Val {
	if _, ok := under(t).(*types.Interface); ok {
		return v
	}
	tid := IntLit(int64(tidOf(t)))
	switch x := v.(type) {
	case *Term:
		switch x.S {
		case SInt:
			if _, isPtr := under(t).(*types.Basic); isPtr {
				return MkIface(tid, IntLit(0), x, TFalse, EmptyStr)
			}
			return MkIface(tid, x, IntLit(0), TFalse, EmptyStr)
		case SBool:
			return MkIface(tid, IntLit(0), IntLit(0), x, EmptyStr)
		case SStr:
			return MkIface(tid, IntLit(0), IntLit(0), TFalse, x)
		case SSlice:
			// box the slice header
			r := e.newObject(st, "box", t, x)
			return MkIface(tid, r, IntLit(0), TFalse, EmptyStr)
		}
	case *StructVal, *ArrayVal:
		r := e.newObject(st, "box", t, x)
		return MkIface(tid, r, IntLit(0), TFalse, EmptyStr)
	case *LocalAddr, *HeapAddr:
		e.term(v)
	}
	panic(unsupported(fmt.Sprintf("makeIface %T", v)))
}

// payload of an interface value as a Go value of type t
func (e *Exec) ifacePayload(st *State, x *Term, t types.Type) Val {
	switch u := under(t).(type) {
	case *types.Basic:
		switch sortOf(t) {
		case SInt:
			return IfInt(x)
		case SBool:
			return IfBool(x)
		case SStr:
			return IfStr(x)
		}
	case *types.Struct, *types.Array, *types.Slice:
		_ = u
		return e.load(st, IfRef(x), t)
	case *types.Interface:
		return x
	}
	return IfRef(x)
}

// implementsTerm: dynamic type of x implements interface it
func (e *Exec) implementsTerm(x *Term, it *types.Interface, itName string) *Term {
	tid := IfTid(x)
	if tid.IsLit() {
		id := int(tid.LitVal().Int64())
		if id == 0 {
			return TFalse
		}
		return BoolLit(types.Implements(tidTypes[id], it))
	}
	if it.NumMethods() == 0 {
		return Neq(tid, IntLit(0))
	}
	fn := "|impl!" + sanitize(itName) + fmt.Sprintf("!%d|", it.NumMethods())
	declFun(fn, SBool, SInt)
	// known types
	var facts []*Term
	ids := make([]int, 0, len(tidTypes))
	for id := range tidTypes {
		ids = append(ids, id)
	}
	sort.Ints(ids)
	for _, id := range ids {
		facts = append(facts, Eq(App(fn, SBool, IntLit(int64(id))), BoolLit(types.Implements(tidTypes[id], it))))
	}
	facts = append(facts, Not(App(fn, SBool, IntLit(0))))
	e.assumeOnce(App(fn, SBool, IntLit(-1)), func() *Term { return And(facts...) })
	return App(fn, SBool, tid)
}

func (e *Exec) typeAssert(st *State, fr *Frame, i *ssa.TypeAssert) Val {
	x := e.tval(fr, i.X)
	var ok *Term
	var v Val
	if it, isI := under(i.AssertedType).(*types.Interface); isI {
		ok = e.implementsTerm(x, it, i.AssertedType.String())
		v = x
	} else {
		// make sure the asserted type has an id before comparing
		ok = Eq(IfTid(x), IntLit(int64(tidOf(i.AssertedType))))
		v = e.ifacePayload(st, x, i.AssertedType)
	}
	if i.CommaOk {
		z := zeroVal(i.AssertedType)
		return TupleVal{e.iteVal(ok, v, z), ok}
	}
	e.check(st, fr, "SAFE.assert", i, "", ok)
	return v
}

func (e *Exec) iteVal(c *Term, a, b Val) Val {
	switch x := a.(type) {
	case *Term:
		return Ite(c, x, b.(*Term))
	case *StructVal:
		y := b.(*StructVal)
		n := &StructVal{T: x.T, F: make([]Val, len(x.F))}
		for k := range x.F {
			n.F[k] = e.iteVal(c, x.F[k], y.F[k])
		}
		return n
	case *ArrayVal:
		y := b.(*ArrayVal)
		n := &ArrayVal{T: x.T, E: make([]Val, len(x.E))}
		for k := range x.E {
			n.E[k] = e.iteVal(c, x.E[k], y.E[k])
		}
		return n
	}
	panic(unsupported("iteVal"))
}

func (e *Exec) convert(st *State, fr *Frame, i *ssa.Convert) Val {
	x := e.val(fr, i.X)
	from, to := i.X.Type(), i.Type()
	_, _, fb, _, fint := intRange(from)
	lo, hi, tb, signed, tint := intRange(to)
	_ = fb
	switch {
	case fint && tint:
		flo, fhi, _, _, _ := intRange(from)
		a, _ := new(big.Int).SetString(flo, 10)
		b, _ := new(big.Int).SetString(fhi, 10)
		c, _ := new(big.Int).SetString(lo, 10)
		d, _ := new(big.Int).SetString(hi, 10)
		if a.Cmp(c) >= 0 && b.Cmp(d) <= 0 {
			return x // every source value is representable: no wrap-around
		}
		return wrapTo(e.term(x), lo, hi, tb, signed)
	case sortOf(from) == SStr && sortOf(to) == SStr:
		return x
	case sortOf(from) == SStr && sortOf(to) == SSlice:
		return e.strToBytes(st, e.term(x), to)
	case sortOf(from) == SSlice && sortOf(to) == SStr:
		return e.bytesToStr(st, e.term(x), from)
	case fint && sortOf(to) == SStr:
		declFun("s_ofrune", SStr, SInt)
		return App("s_ofrune", SStr, e.term(x))
	case sortOf(from) == SInt && sortOf(to) == SInt:
		return x // pointer/unsafe conversions, float<->int (opaque)
	}
	panic(unsupported("convert " + from.String() + " -> " + to.String()))
}

func (e *Exec) strToBytes(st *State, s *Term, to types.Type) *Term {
	et := under(to).(*types.Slice).Elem()
	arr := e.newObject(st, "bytes", nil, nil)
	n := SLen(s)
	sl := MkSlice(arr, IntLit(0), n, n)
	h, hs := cellHeap(et)
	k := BoundVar("k", SInt)
	sel := Select(st.heap(h, hs), El(arr, k))
	e.assume(Forall([]*Term{k}, Implies(And(Le(IntLit(0), k), Lt(k, n)), Eq(sel, App("s_at", SInt, s, k))), []*Term{sel}))
	// round trip: converting the untouched slice back yields the same string
	e.bytesToStr(st, NilSlice, to)
	e.assume(Eq(App("s_ofb", SStr, st.heap(h, hs), arr, IntLit(0), n), s))
	return sl
}

func (e *Exec) bytesToStr(st *State, b *Term, from types.Type) *Term {
	et := under(from).(*types.Slice).Elem()
	h, hs := cellHeap(et)
	heap := st.heap(h, hs)
	declFun("s_ofb", SStr, hs, SInt, SInt, SInt)
	if _, ok := funAxioms["s_ofb"]; !ok {
		H, a, o, l, k := BoundVar("H", hs), BoundVar("a", SInt), BoundVar("o", SInt), BoundVar("l", SInt), BoundVar("k", SInt)
		c := App("s_ofb", SStr, H, a, o, l)
		funAxioms["s_ofb"] = []*Term{
			Forall([]*Term{H, a, o, l}, Implies(Le(IntLit(0), l), Eq(SLen(c), l)), []*Term{c}),
			Forall([]*Term{H, a, o, l, k}, Implies(And(Le(IntLit(0), k), Lt(k, l)), Eq(App("s_at", SInt, c, k), Select(H, El(a, Add(o, k))))), []*Term{App("s_at", SInt, c, k)}),
		}
	}
	return App("s_ofb", SStr, heap, SlArr(b), SlOff(b), SlLen(b))
}

// ---- return / panic -----------------------------------------------------------------

func (e *Exec) doReturn(st *State, fr *Frame, i *ssa.Return) bool {
	var res Val
	switch len(i.Results) {
	case 0:
		res = TupleVal{}
	case 1:
		res = e.val(fr, i.Results[0])
	default:
		tv := make(TupleVal, len(i.Results))
		for k, r := range i.Results {
			tv[k] = e.val(fr, r)
		}
		res = tv
	}
	return e.finishFrame(st, fr, res)
}

func (e *Exec) finishFrame(st *State, fr *Frame, res Val) bool {
	st.frames = st.frames[:len(st.frames)-1]
	if fr.onRet == nil {
		// top-level normal exit
		e.topReturn(st, fr, res)
		return true
	}
	fr.onRet(st, res)
	return false
}

func (e *Exec) explicitPanic(st *State, fr *Frame, i *ssa.Panic) {
	e.startPanic(st, fr, "panic("+e.P.srcLine(i.Pos())+")")
}

func (e *Exec) startPanic(st *State, fr *Frame, what string) {
	st.panicking = true
	st.panicWhat = what
	fr.unwind = true
}

// stepUnwind: run deferred calls of an unwinding frame, then propagate.
func (e *Exec) stepUnwind(st *State, fr *Frame) bool {
	if n := len(fr.defers); n > 0 {
		d := fr.defers[n-1]
		fr.defers = fr.defers[:n-1]
		return e.invokeDeferred(st, fr, d, func(st *State, res Val) {})
	}
	if !st.panicking {
		// recovered: function returns normally through its Recover block
		fr.unwind = false
		if fr.fn.Recover != nil {
			fr.prev = fr.blk
			fr.blk = fr.fn.Recover
			fr.pc = 0
			return false
		}
		var zr Val = zeroVal(fr.fn.Signature.Results())
		if tv := zr.(TupleVal); len(tv) == 1 {
			zr = tv[0]
		}
		return e.finishFrame(st, fr, zr)
	}
	st.frames = st.frames[:len(st.frames)-1]
	if len(st.frames) == 0 || fr.onRet == nil {
		e.topPanicExit(st, fr)
		return true
	}
	if fr.isDefer {
		// panic inside a deferred call: continue unwinding in the frame that ran it
	}
	st.top().unwind = true
	return false
}

// onlyClasses: obligation class prefixes to prove in this process (empty: all)
var onlyClasses []string

// onlyProp: the property whose obligations this process proves (GOVC_PROP; empty: all)
var onlyProp string

func classSelected(class string) bool {
	if class == "VACUITY" || class == "UNWIND" || class == "BUDGET" {
		return true
	}
	for _, c := range onlyClasses {
		if strings.HasPrefix(class, c) {
			return true
		}
	}
	return false
}

// Predicate applications that occur positively in assumed formulas are
// remembered per solver level (notePredApps); when every other attempt to
// discharge a goal has failed, they are unfolded one level (p(args) =>
// body[args], an instance of the defining axiom), the index quantifiers of the
// bodies are instantiated Go-side, and the applications that this produces are
// unfolded in turn (three rounds). This makes chains such as
// wire(q) -> wire(kid(q,1)) -> wire(kid(kid(q,1),j)) independent of the
// solver's own pattern matching.
func posPredApps(t *Term, out *[]*Term) {
	var walk func(t *Term, pos bool)
	walk = func(t *Term, pos bool) {
		if t.S != SBool {
			return
		}
		switch t.Op {
		case "and", "or":
			for _, a := range t.Args {
				walk(a, pos)
			}
		case "=>":
			walk(t.Args[0], !pos)
			walk(t.Args[1], pos)
		case "not":
			walk(t.Args[0], !pos)
		default:
			if pos {
				if _, ok := predDefs[t.Op]; ok && !hasBound(t) {
					*out = append(*out, t)
				}
			}
		}
	}
	walk(t, true)
}

func (e *Exec) notePredApps(t *Term) {
	if len(predDefs) == 0 {
		return
	}
	var apps []*Term
	posPredApps(t, &apps)
	if len(apps) > 0 {
		e.predLv[len(e.predLv)-1] = append(e.predLv[len(e.predLv)-1], apps...)
	}
}

// unfoldRounds: see above. Must be called inside a pushed scope.
func (e *Exec) unfoldRounds(at []*Term) int {
	done := map[*Term]bool{}
	var work []*Term
	for _, lv := range e.predLv {
		work = append(work, lv...)
	}
	n := 0
	for round := 0; round < 3 && len(work) > 0 && n < 60; round++ {
		var next []*Term
		for _, app := range work {
			if done[app] || n >= 60 {
				continue
			}
			done[app] = true
			d := predDefs[app.Op]
			if d == nil || len(d.qs) != len(app.Args) {
				continue
			}
			m := map[*Term]*Term{}
			for i, q := range d.qs {
				m[q] = app.Args[i]
			}
			body := instHyp(Subst(d.body, m), at)
			e.assumeRaw(Implies(app, body))
			n++
			posPredApps(body, &next)
		}
		work = next
	}
	return n
}

// lockRelated: a pre-condition that speaks about lock ownership (held / heldw /
// guard) belongs to the lockset obligations
func lockRelated(text string) bool {
	return strings.Contains(text, "held(") || strings.Contains(text, "heldw(")
}
