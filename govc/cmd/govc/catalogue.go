package main

// Trusted contracts of dependencies (DESIGN §6). Written from the library
// sources/documentation; every entry a run uses is listed in its evidence.

import (
	"go/types"
	"strings"

	"golang.org/x/tools/go/ssa"
)

func sigOf(site ssa.Instruction) *types.Signature {
	return site.(ssa.CallInstruction).Common().Signature()
}

// fresh non-nil pointer / interface result
func (e *Exec) freshNonNil(st *State, name string, t types.Type) *Term {
	v := e.freshVal(st, name, t).(*Term)
	switch v.S {
	case SIface:
		e.assume(Neq(IfTid(v), IntLit(0)))
	case SInt:
		e.assume(Neq(v, IntLit(0)))
	}
	return v
}

// freshObj: a newly allocated object of (pointer) type pt, contents unconstrained
func (e *Exec) freshObj(st *State, name string) *Term {
	return e.newObject(st, name, nil, nil)
}

func ghostBool(st *State, name string) *Term { return st.heap("G!"+name, ArrSort(SBool)) }
func ghostInt(st *State, name string) *Term  { return st.heap("G!"+name, ArrSort(SInt)) }
func ghostStr(st *State, name string) *Term  { return st.heap("G!"+name, ArrSort(SStr)) }

func (e *Exec) setGhost(st *State, name string, s Sort, idx, v *Term) {
	e.setHeap(st, "G!"+name, ArrSort(s), Store(st.heap("G!"+name, ArrSort(s)), idx, v))
}

func recvNonNil(e *Exec, st *State, fr *Frame, site ssa.Instruction, r Val) *Term {
	t := e.term(r)
	e.nilCheck(st, fr, site, t)
	return t
}

func init() {
	ret := func(f func(e *Exec, st *State, fr *Frame, site ssa.Instruction, args []Val) Val) externFn {
		return func(e *Exec, st *State, fr *Frame, site ssa.Instruction, args []Val, k contFn) bool {
			k(st, f(e, st, fr, site, args))
			return false
		}
	}
	fresh := ret(func(e *Exec, st *State, fr *Frame, site ssa.Instruction, args []Val) Val { return e.freshResults(st, site) })

	// ---- bytes.Buffer: ghost contents G!bufdata : ref -> Str -----------------------
	reg("(*bytes.Buffer).String", "returns the buffer contents (ghost bufdata); nil receiver allowed", ret(func(e *Exec, st *State, fr *Frame, site ssa.Instruction, args []Val) Val {
		return Select(ghostStr(st, "bufdata"), e.term(args[0]))
	}))
	reg("(*bytes.Buffer).Len", "length of the contents", ret(func(e *Exec, st *State, fr *Frame, site ssa.Instruction, args []Val) Val {
		b := recvNonNil(e, st, fr, site, args[0])
		return SLen(Select(ghostStr(st, "bufdata"), b))
	}))
	reg("(*bytes.Buffer).Bytes", "returns a slice holding the contents (aliasing with the buffer is not modelled)", ret(func(e *Exec, st *State, fr *Frame, site ssa.Instruction, args []Val) Val {
		b := recvNonNil(e, st, fr, site, args[0])
		return e.strToBytes(st, Select(ghostStr(st, "bufdata"), b), sigOf(site).Results().At(0).Type())
	}))
	reg("(*bytes.Buffer).Truncate", "keeps the first n bytes; panics when n is out of range", ret(func(e *Exec, st *State, fr *Frame, site ssa.Instruction, args []Val) Val {
		b := recvNonNil(e, st, fr, site, args[0])
		n := e.term(args[1])
		cur := Select(ghostStr(st, "bufdata"), b)
		e.check(st, fr, "SAFE.slice", site, "", And(Le(IntLit(0), n), Le(n, SLen(cur))))
		e.setGhost(st, "bufdata", SStr, b, e.strSub(cur, IntLit(0), n))
		return TupleVal{}
	}), "G_bufdata")
	reg("(*bytes.Buffer).Write", "appends p; returns len(p), nil", ret(func(e *Exec, st *State, fr *Frame, site ssa.Instruction, args []Val) Val {
		b := recvNonNil(e, st, fr, site, args[0])
		p := e.term(args[1])
		cur := Select(ghostStr(st, "bufdata"), b)
		e.setGhost(st, "bufdata", SStr, b, e.strCat(cur, e.bytesToStr(st, p, sigOf(site).Params().At(0).Type())))
		return TupleVal{SlLen(p), NilIface}
	}), "G_bufdata")
	reg("bytes.NewReader", "fresh reader over b (ghost rdrdata)", ret(func(e *Exec, st *State, fr *Frame, site ssa.Instruction, args []Val) Val {
		r := e.freshObj(st, "reader")
		e.setGhost(st, "bufdata", SStr, r, e.bytesToStr(st, e.term(args[0]), sigOf(site).Params().At(0).Type()))
		return r
	}), "G_bufdata")

	// ---- go-asn1-ber ---------------------------------------------------------------
	ber := "github.com/go-asn1-ber/asn1-ber."
	newPacket := func(e *Exec, st *State, site ssa.Instruction, class, typ, tag *Term, value *Term, desc *Term, data *Term) *Term {
		pt := sigOf(site).Results().At(0).Type().Underlying().(*types.Pointer).Elem()
		buf := e.freshObj(st, "pktdata")
		e.setGhost(st, "bufdata", SStr, buf, data)
		s := under(pt).(*types.Struct)
		sv := zeroVal(pt).(*StructVal)
		for i := 0; i < s.NumFields(); i++ {
			switch s.Field(i).Name() {
			case "Identifier":
				id := sv.F[i].(*StructVal)
				is := under(id.T).(*types.Struct)
				for j := 0; j < is.NumFields(); j++ {
					switch is.Field(j).Name() {
					case "ClassType":
						id.F[j] = class
					case "TagType":
						id.F[j] = typ
					case "Tag":
						id.F[j] = tag
					}
				}
			case "Value":
				sv.F[i] = value
			case "Data":
				sv.F[i] = buf
			case "Description":
				sv.F[i] = desc
			}
		}
		q := e.newObject(st, "pkt", pt, sv)
		e.setGhost(st, "pktnew", SBool, q, TTrue)
		return q
	}
	berMods := []string{"all(ber.Packet)", "cell(*ber.Packet)", "G_bufdata", "G_pktnew"}
	reg(ber+"Encode", "fresh packet with the given class/type/tag/value/description, no children; Data holds the encoding of value (empty for nil)", ret(func(e *Exec, st *State, fr *Frame, site ssa.Instruction, args []Val) Val {
		v := e.term(args[3])
		declFun("ber_encval", SStr, SIface)
		data := Ite(Eq(IfTid(v), IntLit(0)), EmptyStr, App("ber_encval", SStr, v))
		return newPacket(e, st, site, e.term(args[0]), e.term(args[1]), e.term(args[2]), v, e.term(args[4]), data)
	}), berMods...)
	reg(ber+"NewString", "fresh primitive packet, Value = the string, Data = its bytes", ret(func(e *Exec, st *State, fr *Frame, site ssa.Instruction, args []Val) Val {
		s := e.term(args[3])
		v := e.makeIface(st, types.Typ[types.String], s).(*Term)
		return newPacket(e, st, site, e.term(args[0]), e.term(args[1]), e.term(args[2]), v, e.term(args[4]), s)
	}), berMods...)
	reg(ber+"NewInteger", "fresh packet, Value = value, Data = two's complement encoding; panics unless value is one of the ten integer kinds", ret(func(e *Exec, st *State, fr *Frame, site ssa.Instruction, args []Val) Val {
		v := e.term(args[3])
		var oks []*Term
		for _, k := range []types.BasicKind{types.Int, types.Int8, types.Int16, types.Int32, types.Int64, types.Uint, types.Uint8, types.Uint16, types.Uint32, types.Uint64} {
			oks = append(oks, Eq(IfTid(v), IntLit(int64(tidOf(types.Typ[k])))))
		}
		e.check(st, fr, "SAFE.assert", site, "ber.NewInteger value kind | "+e.P.srcLine(site.Pos()), Or(oks...))
		declFun("ber_encint", SStr, SInt)
		return newPacket(e, st, site, e.term(args[0]), e.term(args[1]), e.term(args[2]), v, e.term(args[4]), App("ber_encint", SStr, IfInt(v)))
	}), berMods...)
	reg(ber+"NewBoolean", "fresh packet, Value = the bool, Data = one byte", ret(func(e *Exec, st *State, fr *Frame, site ssa.Instruction, args []Val) Val {
		b := e.term(args[3])
		v := e.makeIface(st, types.Typ[types.Bool], b).(*Term)
		declFun("ber_encbool", SStr, SBool)
		return newPacket(e, st, site, e.term(args[0]), e.term(args[1]), e.term(args[2]), v, e.term(args[4]), App("ber_encbool", SStr, b))
	}), berMods...)
	reg("(*"+ber+"Packet).AppendChild", "p.Data gets child.Bytes() appended (snapshot), p.Children = p.Children ++ [child]; panics when p or child is nil", ret(func(e *Exec, st *State, fr *Frame, site ssa.Instruction, args []Val) Val {
		p := recvNonNil(e, st, fr, site, args[0])
		c := e.term(args[1])
		e.check(st, fr, "SAFE.nil", site, "AppendChild(nil) | "+e.P.srcLine(site.Pos()), Neq(c, IntLit(0)))
		pt := sigOf(site).Params().At(0).Type() // *Packet (the child)
		pkt := pt.Underlying().(*types.Pointer).Elem()
		s := under(pkt).(*types.Struct)
		var ci, di int
		for i := 0; i < s.NumFields(); i++ {
			if s.Field(i).Name() == "Children" {
				ci = i
			}
			if s.Field(i).Name() == "Data" {
				di = i
			}
		}
		ch := e.fieldAddr(p, pkt, ci)
		old := e.load(st, ch, s.Field(ci).Type()).(*Term)
		arr := e.freshObj(st, "children")
		n := SlLen(old)
		ns := MkSlice(arr, IntLit(0), Add(n, IntLit(1)), Add(n, IntLit(1)))
		hn, hs := cellHeap(pt)
		h := st.heap(hn, hs)
		kk := BoundVar("k", SInt)
		dst := Select(h, El(arr, kk))
		e.assume(Forall([]*Term{kk}, Implies(And(Le(IntLit(0), kk), Lt(kk, n)), Eq(dst, Select(h, elemRef(old, kk)))), []*Term{dst}))
		e.store(st, El(arr, n), pt, c)
		e.store(st, ch, s.Field(ci).Type(), ns)
		// Data: append the child's current serialisation
		buf := e.load(st, e.fieldAddr(p, pkt, di), s.Field(di).Type()).(*Term)
		e.nilCheck(st, fr, site, buf)
		cur := Select(ghostStr(st, "bufdata"), buf)
		e.setGhost(st, "bufdata", SStr, buf, e.strCat(cur, e.pktBytes(st, c, pkt)))
		return TupleVal{}
	}), berMods...)
	reg("(*"+ber+"Packet).Bytes", "serialisation of the packet: identifier, length and the current contents of Data", ret(func(e *Exec, st *State, fr *Frame, site ssa.Instruction, args []Val) Val {
		p := recvNonNil(e, st, fr, site, args[0])
		pkt := site.(ssa.CallInstruction).Common().Args[0].Type().Underlying().(*types.Pointer).Elem()
		return e.strToBytes(st, e.pktBytes(st, p, pkt), sigOf(site).Results().At(0).Type())
	}))
	readPkt := ret(func(e *Exec, st *State, fr *Frame, site ssa.Instruction, args []Val) Val {
		// (q, nil) with q a fresh well-shaped tree, or (nil, err)
		mod := map[string]Sort{}
		ctx := &SpecCtx{e: e, pkg: e.P.tpkgs[pkgGldap]}
		for _, m := range berMods {
			e.addNamedHeap(m, ctx, mod)
		}
		old := st.snapshot()
		e.havocMod(st, mod)
		e.frameOldObjects(st, old, mod)
		rs := sigOf(site).Results()
		q := e.freshVal(st, "decoded", rs.At(0).Type()).(*Term)
		err := e.freshErr(st, false)
		e.assume(Eq(Eq(IfTid(err), IntLit(0)), Neq(q, IntLit(0))))
		e.assume(Implies(Neq(q, IntLit(0)), And(Not(Allocd(old.alloc, q)), Allocd(st.alloc, q), Eq(App("rkind", SInt, q), IntLit(0)))))
		e.assume(Implies(Neq(q, IntLit(0)), e.wireFresh(st, old, q)))
		return TupleVal{q, err}
	})
	reg(ber+"DecodePacketErr", "returns (q, nil) with q a freshly allocated packet tree in wire form, or (nil, err); existing objects are unchanged", readPkt, berMods...)
	reg(ber+"ReadPacket", "as DecodePacketErr, reading from the reader", readPkt, berMods...)
	reg(ber+"DecodeString", "string(data)", ret(func(e *Exec, st *State, fr *Frame, site ssa.Instruction, args []Val) Val {
		return e.bytesToStr(st, e.term(args[0]), sigOf(site).Params().At(0).Type())
	}))
	reg(ber+"ParseInt64", "(v, nil) or (0, err); a function of the bytes", ret(func(e *Exec, st *State, fr *Frame, site ssa.Instruction, args []Val) Val {
		s := e.bytesToStr(st, e.term(args[0]), sigOf(site).Params().At(0).Type())
		declFun("ber_parseint", SInt, SStr)
		v := App("ber_parseint", SInt, s)
		e.assume(e.wfTerm(st, v, types.Typ[types.Int64]))
		err := e.freshErr(st, false)
		e.assume(Eq(Neq(IfTid(err), IntLit(0)), Gt(SLen(s), IntLit(8))))
		return TupleVal{Ite(Eq(IfTid(err), IntLit(0)), v, IntLit(0)), err}
	}))
	reg(ber+"PrintBytes", "writes to out; no effect on verified state", fresh)
	reg("github.com/go-ldap/ldap/v3.DecompileFilter", "never panics (has its own recover); returns (decomp(p), nil) or (\"\", err)", ret(func(e *Exec, st *State, fr *Frame, site ssa.Instruction, args []Val) Val {
		p := e.term(args[0])
		declFun("|abs!decomp|", SStr, SInt)
		declFun("|abs!filterOK|", SBool, SInt)
		err := e.freshErr(st, false)
		e.assume(Eq(Eq(IfTid(err), IntLit(0)), App("|abs!filterOK|", SBool, p)))
		return TupleVal{Ite(Eq(IfTid(err), IntLit(0)), App("|abs!decomp|", SStr, p), EmptyStr), err}
	}))

	// ---- logging: no effect, no panic (A-LOG) ---------------------------------------
	for _, m := range []string{"Debug", "Error", "Info", "Warn", "Trace", "IsDebug", "StandardWriter", "StandardLogger", "Named", "With"} {
		reg("iface:github.com/hashicorp/go-hclog.Logger."+m, "no effect on verified state; does not panic (A-LOG)", fresh)
	}
	reg("github.com/hashicorp/go-hclog.New", "returns a non-nil logger", ret(func(e *Exec, st *State, fr *Frame, site ssa.Instruction, args []Val) Val {
		return e.freshNonNil(st, "logger", sigOf(site).Results().At(0).Type())
	}))
	reg("iface:error.Error", "opaque string", ret(func(e *Exec, st *State, fr *Frame, site ssa.Instruction, args []Val) Val {
		declFun("errstr", SStr, SIface)
		return App("errstr", SStr, e.term(args[0]))
	}))
	reg("(*log.Logger).Println", "no effect", fresh)
	reg("iface:github.com/jimlambrt/gldap/testdirectory.HelperT.Helper", "testing.T.Helper: no effect", fresh)

	// ---- time, context -----------------------------------------------------------------
	reg("time.Now", "opaque", fresh)
	reg("(time.Time).Add", "opaque", fresh)
	reg("context.Background", "non-nil context", ret(func(e *Exec, st *State, fr *Frame, site ssa.Instruction, args []Val) Val {
		return e.freshNonNil(st, "ctx", sigOf(site).Results().At(0).Type())
	}))
	reg("context.WithTimeout", "non-nil context and cancel func", ret(func(e *Exec, st *State, fr *Frame, site ssa.Instruction, args []Val) Val {
		rs := sigOf(site).Results()
		return TupleVal{e.freshNonNil(st, "ctx", rs.At(0).Type()), e.freshNonNil(st, "cancel", rs.At(1).Type())}
	}))
	reg("context.WithCancel", "non-nil context and cancel func; cancel() closes ctx.Done()", ret(func(e *Exec, st *State, fr *Frame, site ssa.Instruction, args []Val) Val {
		rs := sigOf(site).Results()
		ctx := e.freshNonNil(st, "ctx", rs.At(0).Type())
		cancel := e.freshNonNil(st, "cancel", rs.At(1).Type())
		declFun("cancelof", SInt, SInt)
		declFun("donech", SInt, SIface)
		e.assume(Eq(App("cancelof", SInt, cancel), App("donech", SInt, ctx)))
		return TupleVal{ctx, cancel}
	}))
	reg("functype:context.CancelFunc", "idempotent; closes the Done channel of its context; does not panic", ret(func(e *Exec, st *State, fr *Frame, site ssa.Instruction, args []Val) Val {
		declFun("cancelof", SInt, SInt)
		e.setGhost(st, "closedch", SBool, App("cancelof", SInt, e.term(args[0])), TTrue)
		return TupleVal{}
	}), "G_closedch")
	reg("iface:context.Context.Done", "the context's done channel", ret(func(e *Exec, st *State, fr *Frame, site ssa.Instruction, args []Val) Val {
		declFun("donech", SInt, SIface)
		ch := App("donech", SInt, e.term(args[0]))
		e.assume(Gt(ch, IntLit(0)))
		return ch
	}))

	// ---- sync/atomic: another thread may change the cell at any time, so the value read, and the
	// value left behind by an update, are unknown (sound for every interleaving; no panic for a non-nil address)
	for _, n := range []string{"Int32", "Int64", "Uint32", "Uint64"} {
		var elem types.Type
		switch n {
		case "Int32":
			elem = types.Typ[types.Int32]
		case "Int64":
			elem = types.Typ[types.Int64]
		case "Uint32":
			elem = types.Typ[types.Uint32]
		default:
			elem = types.Typ[types.Uint64]
		}
		et := elem
		upd := ret(func(e *Exec, st *State, fr *Frame, site ssa.Instruction, args []Val) Val {
			if t, ok := args[0].(*Term); ok {
				e.nilCheck(st, fr, site, t)
			}
			e.store(st, args[0], et, e.freshVal(st, "atomic", et))
			return e.freshResults(st, site)
		})
		reg("sync/atomic.Add"+n, "the cell and the result are unknown afterwards (concurrent updates)", upd)
		reg("sync/atomic.Store"+n, "the cell is unknown afterwards (concurrent updates)", upd)
		reg("sync/atomic.Swap"+n, "the cell and the result are unknown afterwards", upd)
		reg("sync/atomic.CompareAndSwap"+n, "the cell and the result are unknown afterwards", upd)
		reg("sync/atomic.Load"+n, "unknown value (concurrent updates)", fresh)
	}
	reg("iface:context.Context.Err", "non-nil exactly when the context's done channel is closed", ret(func(e *Exec, st *State, fr *Frame, site ssa.Instruction, args []Val) Val {
		declFun("donech", SInt, SIface)
		ch := App("donech", SInt, e.term(args[0]))
		e.assume(Gt(ch, IntLit(0)))
		err := e.freshErr(st, false)
		e.assume(Eq(Neq(IfTid(err), IntLit(0)), Select(st.heap("G!closedch", ArrSort(SBool)), ch)))
		return err
	}))

	// ---- net / tls (A-NET, A-TLS): results opaque here; ghost effects are added by the
	// spec-language extern contracts in the contract file where a property needs them
	for _, n := range []string{"net.ParseIP", "net/netip.ParseAddr", "(*net.Resolver).LookupHost", "net.IPv4"} {
		reg(n, "opaque result; no effect; does not panic", fresh)
	}
	reg("crypto/tls.Server", "returns a fresh non-nil *tls.Conn wrapping conn", ret(func(e *Exec, st *State, fr *Frame, site ssa.Instruction, args []Val) Val {
		c := e.freshObj(st, "tlsconn")
		declFun("tlsunder", SIface, SInt)
		declFun("tlscfg", SInt, SInt)
		e.assume(And(Eq(App("tlsunder", SIface, c), e.term(args[0])), Eq(App("tlscfg", SInt, c), e.term(args[1]))))
		return c
	}))
	reg("(*crypto/tls.Conn).Handshake", "nil or an error; no effect on verified state", ret(func(e *Exec, st *State, fr *Frame, site ssa.Instruction, args []Val) Val {
		recvNonNil(e, st, fr, site, args[0])
		return e.freshErr(st, false)
	}))
	reg("bufio.NewReader", "fresh non-nil reader reading only from rd (ghost rsrc)", ret(func(e *Exec, st *State, fr *Frame, site ssa.Instruction, args []Val) Val {
		r := e.freshObj(st, "bufreader")
		e.setGhost(st, "rsrc", SIface, r, e.term(args[0]))
		return r
	}), "G_rsrc")
	reg("bufio.NewWriter", "fresh non-nil writer writing only to w (ghost wdst), nothing buffered", ret(func(e *Exec, st *State, fr *Frame, site ssa.Instruction, args []Val) Val {
		r := e.freshObj(st, "bufwriter")
		e.setGhost(st, "wdst", SIface, r, e.term(args[0]))
		e.setGhost(st, "npend", SInt, r, IntLit(0))
		if _, ok := e.db.ghosts["werr"]; ok {
			e.setGhost(st, "werr", SBool, r, TFalse)
			e.setGhost(st, "pendstr", SStr, r, EmptyStr)
		}
		return r
	}), "G_wdst", "G_npend", "G_werr", "G_pendstr")

	// ---- encoding/binary: opaque here (no panic for fixed-size data; error or nil) ------
	reg("encoding/binary.Write", "appends the fixed-size encoding of data to w or returns an error; does not panic for fixed-size values", ret(func(e *Exec, st *State, fr *Frame, site ssa.Instruction, args []Val) Val {
		w := e.term(args[0])
		declFun("bin_enc", SStr, SIface, SIface)
		cur := Select(ghostStr(st, "bufdata"), IfRef(w))
		e.setGhost(st, "bufdata", SStr, IfRef(w), e.strCat(cur, App("bin_enc", SStr, e.term(args[1]), e.term(args[2]))))
		return e.freshErr(st, false)
	}), "G_bufdata")
	reg("encoding/binary.Read", "fills *data from r or returns an error; does not panic for pointers to fixed-size values and slices", func(e *Exec, st *State, fr *Frame, site ssa.Instruction, args []Val, k contFn) bool {
		// the pointee is overwritten with unspecified bytes
		e.havocMod(st, map[string]Sort{"*": ""})
		k(st, e.freshErr(st, false))
		return false
	}, "*")
	// ---- sync: ghost lock sets of the current thread (T-LOCK) ---------------------------
	lockOp := func(ghost string, acquire bool, what string) externFn {
		return func(e *Exec, st *State, fr *Frame, site ssa.Instruction, args []Val, k contFn) bool {
			m := recvNonNil(e, st, fr, site, args[0])
			held := Select(ghostBool(st, ghost), m)
			if acquire {
				e.check(st, fr, "LOCK.held", site, what+" of a lock this thread already holds | "+e.P.srcLine(site.Pos()), Not(Or(Select(ghostBool(st, "held"), m), Select(ghostBool(st, "rheld"), m))))
				e.setGhost(st, ghost, SBool, m, TTrue)
				e.lockAcquired(st, fr, site, m, ghost == "held")
			} else {
				e.check(st, fr, "LOCK.held", site, what+" of a lock this thread does not hold | "+e.P.srcLine(site.Pos()), held)
				e.lockReleasing(st, fr, site, m, ghost == "held")
				e.setGhost(st, ghost, SBool, m, TFalse)
			}
			k(st, TupleVal{})
			return false
		}
	}
	reg("(*sync.Mutex).Lock", "acquires the mutex (CSL rule: critical sections are serialised; lock invariant assumed)", lockOp("held", true, "Lock"), "G_held")
	reg("(*sync.Mutex).Unlock", "releases the mutex (lock invariant must hold)", lockOp("held", false, "Unlock"), "G_held")
	reg("(*sync.RWMutex).Lock", "acquires the write lock", lockOp("held", true, "Lock"), "G_held")
	reg("(*sync.RWMutex).Unlock", "releases the write lock", lockOp("held", false, "Unlock"), "G_held")
	reg("(*sync.RWMutex).RLock", "acquires a read lock", lockOp("rheld", true, "RLock"), "G_rheld")
	reg("(*sync.RWMutex).RUnlock", "releases a read lock", lockOp("rheld", false, "RUnlock"), "G_rheld")
	// ---- reflect (only isNil) ---------------------------------------------------------
	reg("reflect.TypeOf", "non-nil Type for a non-nil argument", ret(func(e *Exec, st *State, fr *Frame, site ssa.Instruction, args []Val) Val {
		r := e.freshVal(st, "rtype", sigOf(site).Results().At(0).Type()).(*Term)
		e.assume(Eq(Eq(IfTid(r), IntLit(0)), Eq(IfTid(e.term(args[0])), IntLit(0))))
		return r
	}))
	for _, n := range []string{"reflect.ValueOf", "iface:reflect.Type.Kind", "(reflect.Value).IsNil"} {
		reg(n, "opaque; assumed not to panic for the kinds isNil passes", fresh)
	}
	reg("sort.Strings", "sorts the slice in place (result: sorted permutation; modelled as havoc of the elements)", ret(func(e *Exec, st *State, fr *Frame, site ssa.Instruction, args []Val) Val {
		h, hs := cellHeap(types.Typ[types.String])
		old := st.heap(h, hs)
		nh := e.havocHeap(st, h, hs)
		s := e.term(args[0])
		x := BoundVar("x", SInt)
		inWin := And(Eq(App("rkind", SInt, x), IntLit(1)), Eq(App("el_arr", SInt, x), SlArr(s)),
			Le(SlOff(s), App("el_idx", SInt, x)), Lt(App("el_idx", SInt, x), Add(SlOff(s), SlLen(s))))
		e.assume(Forall([]*Term{x}, Implies(Not(inWin), Eq(Select(nh, x), Select(old, x))), []*Term{Select(nh, x)}))
		// sorted ascending, and a permutation of the old contents (both directions as membership)
		i, j := BoundVar("i", SInt), BoundVar("j", SInt)
		declFun("s_lt", SBool, SStr, SStr)
		at := func(hp, k *Term) *Term { return Select(hp, elemRef(s, k)) }
		e.assume(Forall([]*Term{i, j}, Implies(And(Le(IntLit(0), i), Lt(i, j), Lt(j, SlLen(s))), Not(App("s_lt", SBool, at(nh, j), at(nh, i)))), []*Term{at(nh, i), at(nh, j)}))
		declFun("sortperm", SInt, SInt, SInt)
		tag := Const(freshName("sortcall"), SInt)
		pm := func(k *Term) *Term { return App("sortperm", SInt, tag, k) }
		e.assume(Forall([]*Term{i}, Implies(And(Le(IntLit(0), i), Lt(i, SlLen(s))), And(Le(IntLit(0), pm(i)), Lt(pm(i), SlLen(s)), Eq(at(nh, i), at(old, pm(i))))), []*Term{at(nh, i)}))
		e.assume(Forall([]*Term{i, j}, Implies(And(Le(IntLit(0), i), Lt(i, j), Lt(j, SlLen(s))), Neq(pm(i), pm(j))), []*Term{pm(i), pm(j)}))
		return TupleVal{}
	}), "cell(string)")
}

// pktBytes: serialisation of packet p at the current state: a function of its
// identifier and the current contents of its Data buffer.
func (e *Exec) pktBytes(st *State, p *Term, pkt types.Type) *Term {
	declFun("ber_tlv", SStr, SInt, SInt, SInt, SStr)
	s := under(pkt).(*types.Struct)
	var cls, typ, tag, buf *Term
	for i := 0; i < s.NumFields(); i++ {
		switch s.Field(i).Name() {
		case "Identifier":
			id := e.load(st, e.fieldAddr(p, pkt, i), s.Field(i).Type()).(*StructVal)
			is := under(id.T).(*types.Struct)
			for j := 0; j < is.NumFields(); j++ {
				switch is.Field(j).Name() {
				case "ClassType":
					cls = id.F[j].(*Term)
				case "TagType":
					typ = id.F[j].(*Term)
				case "Tag":
					tag = id.F[j].(*Term)
				}
			}
		case "Data":
			buf = e.load(st, e.fieldAddr(p, pkt, i), s.Field(i).Type()).(*Term)
		}
	}
	return App("ber_tlv", SStr, cls, typ, tag, Select(ghostStr(st, "bufdata"), buf))
}

// frameOldObjects: after a havoc by a trusted library call that only creates
// new objects, every heap in mod is unchanged on objects allocated before.
func (e *Exec) frameOldObjects(st *State, old *Snapshot, mod map[string]Sort) {
	for _, name := range sortedSortKeys(mod) {
		s := mod[name]
		if name == "*" {
			continue
		}
		if strings.HasPrefix(name, "G!") && name != "G!bufdata" && name != "G!pktnew" {
			continue
		}
		x := BoundVar("x", SInt)
		nh := st.heap(name, s)
		oh := old.heap(name, s)
		e.assume(Forall([]*Term{x}, Implies(e.existedIn(old, x), Eq(Select(nh, x), Select(oh, x))), []*Term{Select(nh, x)}))
	}
}

// existedIn: x is an object of the old state, or a sub-object/element of one
func (e *Exec) existedIn(old *Snapshot, x *Term) *Term {
	declFun("rroot", SInt, SInt)
	return Allocd(old.alloc, x)
}

// wireFresh: what the BER reader guarantees of a packet tree it returns
// (go-asn1-ber v1.5.5 readPacket): see DESIGN §4 T-BER. Stated for every packet
// allocated by this call.
func (e *Exec) wireFresh(st *State, old *Snapshot, q *Term) *Term {
	pf, ok := e.db.pures["wire"]
	if !ok {
		return TTrue
	}
	ctx := e.newSpecCtx(st, e.P.tpkgs[pf.Pkg], old)
	pt := ctx.resolveType(pf.Params[0].Type)
	return ctx.callPred(pf, ctx.pkg, map[string]*specVar{pf.Params[0].Name: {v: q, t: pt}})
}

// hooks for lock invariants (filled in by lock.go)
func (e *Exec) lockAcquired(st *State, fr *Frame, site ssa.Instruction, m *Term, exclusive bool)  { e.onLock(st, fr, site, m, exclusive, true) }
func (e *Exec) lockReleasing(st *State, fr *Frame, site ssa.Instruction, m *Term, exclusive bool) { e.onLock(st, fr, site, m, exclusive, false) }
