package main

import (
	"fmt"
	"go/types"
	"sort"
	"strings"

	"golang.org/x/tools/go/ssa"
)

type Loop struct {
	header *ssa.BasicBlock
	blocks map[int]bool
	ord    int
	mod    map[string]Sort
	locals map[*ssa.Alloc]bool
	lpaths map[*ssa.Alloc][][]int // stored sub-paths of a local (nil entry = whole variable)
	iters  map[ssa.Value]bool
}

type LoopInfo struct {
	byHeader map[int]*Loop
	list     []*Loop
}

func (e *Exec) loopInfo(fn *ssa.Function) *LoopInfo {
	if li, ok := e.loops[fn]; ok {
		return li
	}
	li := &LoopInfo{byHeader: map[int]*Loop{}}
	for _, b := range fn.Blocks {
		for _, s := range b.Succs {
			if s.Dominates(b) {
				lp := li.byHeader[s.Index]
				if lp == nil {
					lp = &Loop{header: s, blocks: map[int]bool{s.Index: true}}
					li.byHeader[s.Index] = lp
				}
				// natural loop of back edge b -> s
				var stack []*ssa.BasicBlock
				if !lp.blocks[b.Index] {
					lp.blocks[b.Index] = true
					stack = append(stack, b)
				}
				for len(stack) > 0 {
					x := stack[len(stack)-1]
					stack = stack[:len(stack)-1]
					for _, p := range x.Preds {
						if !lp.blocks[p.Index] {
							lp.blocks[p.Index] = true
							stack = append(stack, p)
						}
					}
				}
			}
		}
	}
	var hs []int
	for h := range li.byHeader {
		hs = append(hs, h)
	}
	sort.Ints(hs)
	for i, h := range hs {
		lp := li.byHeader[h]
		lp.ord = i + 1
		li.list = append(li.list, lp)
	}
	if len(li.list) == 0 {
		li = nil
	}
	e.loops[fn] = li
	return li
}

func (e *Exec) loopMod(fn *ssa.Function, lp *Loop) {
	if lp.mod != nil {
		return
	}
	lp.mod = map[string]Sort{}
	lp.locals = map[*ssa.Alloc]bool{}
	lp.lpaths = map[*ssa.Alloc][][]int{}
	lp.iters = map[ssa.Value]bool{}
	for _, b := range fn.Blocks {
		if !lp.blocks[b.Index] {
			continue
		}
		for _, in := range b.Instrs {
			e.instrMod(fn, in, lp.mod, lp.locals, map[*ssa.Function]bool{})
			if stI, ok := in.(*ssa.Store); ok {
				if a, ok := storeRoot(stI.Addr).(*ssa.Alloc); ok && !a.Heap {
					lp.lpaths[a] = append(lp.lpaths[a], localPath(stI.Addr))
				}
			}
			if nx, ok := in.(*ssa.Next); ok {
				lp.iters[nx.Iter] = true
			}
		}
	}
}

func leafHeaps(t types.Type, out map[string]Sort) {
	switch u := under(t).(type) {
	case *types.Struct:
		for i := 0; i < u.NumFields(); i++ {
			ft := u.Field(i).Type()
			if isComposite(ft) {
				leafHeaps(ft, out)
			} else {
				h, s, _ := fieldHeap(t, i)
				out[h] = s
			}
		}
	case *types.Array:
		leafHeaps(u.Elem(), out)
	default:
		defer func() { recover() }() // unsupported sorts contribute nothing
		h, s := cellHeap(t)
		out[h] = s
	}
}

// localPath: field path of a store address below its root (nil = whole / unknown)
func localPath(addr ssa.Value) []int {
	var rev []int
	for {
		switch a := addr.(type) {
		case *ssa.FieldAddr:
			rev = append(rev, a.Field)
			addr = a.X
		case *ssa.Alloc:
			if len(rev) == 0 {
				return nil
			}
			out := make([]int, len(rev))
			for i := range rev {
				out[i] = rev[len(rev)-1-i]
			}
			return out
		default:
			return nil
		}
	}
}

func storeRoot(addr ssa.Value) ssa.Value {
	for {
		switch a := addr.(type) {
		case *ssa.FieldAddr:
			addr = a.X
		case *ssa.IndexAddr:
			if _, isPtr := under(a.X.Type()).(*types.Pointer); isPtr {
				addr = a.X
			} else {
				return a
			}
		default:
			return addr
		}
	}
}

// instrMod adds the heaps (and local variables) an instruction may write.
func (e *Exec) instrMod(fn *ssa.Function, in ssa.Instruction, mod map[string]Sort, locals map[*ssa.Alloc]bool, seen map[*ssa.Function]bool) {
	switch i := in.(type) {
	case *ssa.Store:
		root := storeRoot(i.Addr)
		if a, ok := root.(*ssa.Alloc); ok && !a.Heap {
			if locals != nil {
				locals[a] = true
			}
			return
		}
		T := i.Val.Type()
		if fa, ok := i.Addr.(*ssa.FieldAddr); ok && !isComposite(T) {
			h, s, _ := fieldHeap(fa.X.Type().Underlying().(*types.Pointer).Elem(), fa.Field)
			mod[h] = s
			return
		}
		leafHeaps(T, mod)
	case *ssa.MapUpdate:
		mt := under(i.Map.Type()).(*types.Map)
		for _, h := range mapHeaps(mt) {
			mod[h.name] = h.sort
		}
	case *ssa.Alloc:
		if i.Heap {
			leafHeaps(i.Type().Underlying().(*types.Pointer).Elem(), mod)
		}
	case *ssa.MakeInterface:
		if isComposite(i.X.Type()) || sortOfSafe(i.X.Type()) == SSlice {
			leafHeaps(i.X.Type(), mod)
		}
	case *ssa.Call:
		e.callMod(fn, &i.Call, mod, seen)
	case *ssa.Defer:
		e.callMod(fn, &i.Call, mod, seen)
	case *ssa.Go:
	}
}

func sortOfSafe(t types.Type) (s Sort) {
	defer func() {
		if recover() != nil {
			s = ""
		}
	}()
	return sortOf(t)
}

func (e *Exec) callMod(fn *ssa.Function, cc *ssa.CallCommon, mod map[string]Sort, seen map[*ssa.Function]bool) {
	if b, ok := cc.Value.(*ssa.Builtin); ok {
		switch b.Name() {
		case "append", "copy":
			if sl, ok := under(cc.Args[0].Type()).(*types.Slice); ok {
				leafHeaps(sl.Elem(), mod)
			}
		case "delete":
			mt := under(cc.Args[0].Type()).(*types.Map)
			for _, h := range mapHeaps(mt) {
				mod[h.name] = h.sort
			}
		}
		return
	}
	if cc.IsInvoke() {
		it := cc.Value.Type()
		key := ifaceKey(it) + "." + cc.Method.Name()
		short := strings.ReplaceAll(strings.ReplaceAll(key, pkgTD, "testdirectory"), pkgGldap, "gldap")
		if c, ok := e.db.methods[short]; ok {
			for k, v := range e.modOfContract(c, nil) {
				mod[k] = v
			}
			return
		}
		if c, ok := e.db.externs["iface:"+key]; ok {
			for k, v := range e.modOfContract(c, nil) {
				mod[k] = v
			}
			return
		}
		if m, ok := externMods["iface:"+key]; ok {
			for _, h := range m {
				e.addNamedHeap(h, nil, mod)
			}
			return
		}
		if _, ok := externs["iface:"+key]; ok {
			return
		}
		iface := under(it).(*types.Interface)
		for _, T := range e.P.ownTypes {
			for _, TT := range []types.Type{T, types.NewPointer(T)} {
				if _, isI := under(T).(*types.Interface); isI {
					continue
				}
				if types.Implements(TT, iface) {
					ms := e.P.prog.MethodSets.MethodSet(TT)
					if sel := ms.Lookup(cc.Method.Pkg(), cc.Method.Name()); sel != nil {
						if f := e.P.prog.MethodValue(sel); f != nil {
							e.fnMod(f, mod, seen)
						}
					}
					break
				}
			}
		}
		return
	}
	if f := cc.StaticCallee(); f != nil {
		e.fnMod(f, mod, seen)
		return
	}
	// dynamic function value
	key := ifaceKey(cc.Value.Type())
	short := strings.ReplaceAll(strings.ReplaceAll(key, pkgTD, "testdirectory"), pkgGldap, "gldap")
	if c, ok := e.db.ftypes[short]; ok {
		for k, v := range e.modOfContract(c, nil) {
			mod[k] = v
		}
		if named, isN := cc.Value.Type().(*types.Named); isN && named.Obj().Exported() {
			return // values of an exported function type obey its contract (A-USER)
		}
	}
	if _, ok := externs["functype:"+key]; ok {
		for _, h := range externMods["functype:"+key] {
			e.addNamedHeap(h, nil, mod)
		}
		return
	}
	// closed world: any address-taken function of the same signature
	sig := under(cc.Value.Type()).(*types.Signature)
	for _, f := range e.addrTaken() {
		if types.Identical(f.Signature, sig) || sameSigIgnoringRecv(f.Signature, sig) {
			e.fnMod(f, mod, seen)
		}
	}
}

func sameSigIgnoringRecv(a, b *types.Signature) bool {
	return types.Identical(types.NewSignatureType(nil, nil, nil, a.Params(), a.Results(), a.Variadic()), types.NewSignatureType(nil, nil, nil, b.Params(), b.Results(), b.Variadic()))
}

var addrTakenCache []*ssa.Function

func (e *Exec) addrTaken() []*ssa.Function {
	if addrTakenCache != nil {
		return addrTakenCache
	}
	set := map[*ssa.Function]bool{}
	for f := range e.P.allFns {
		if f.Pkg == nil || !ownPkg(f.Pkg.Pkg) {
			continue
		}
		for _, b := range f.Blocks {
			for _, in := range b.Instrs {
				if mc, ok := in.(*ssa.MakeClosure); ok {
					set[mc.Fn.(*ssa.Function)] = true
				}
				for _, op := range in.Operands(nil) {
					if g, ok := (*op).(*ssa.Function); ok {
						if c, isCall := in.(ssa.CallInstruction); isCall && c.Common().Value == g {
							continue
						}
						set[g] = true
					}
				}
			}
		}
	}
	for f := range set {
		addrTakenCache = append(addrTakenCache, f)
	}
	sort.Slice(addrTakenCache, func(i, j int) bool { return addrTakenCache[i].String() < addrTakenCache[j].String() })
	return addrTakenCache
}

var fnModCache = map[*ssa.Function]map[string]Sort{}

func (e *Exec) fnMod(f *ssa.Function, mod map[string]Sort, seen map[*ssa.Function]bool) {
	if seen[f] {
		return
	}
	if m, ok := fnModCache[f]; ok {
		for k, v := range m {
			mod[k] = v
		}
		return
	}
	seen[f] = true
	own := f.Pkg != nil && ownPkg(f.Pkg.Pkg) || (f.Pkg == nil && len(f.Blocks) > 0 && ownSynthetic(f))
	m := map[string]Sort{}
	if own {
		if c, ok := e.db.funcs[shortName(f)]; ok && c.HasModifies {
			for k, v := range e.modOfContract(c, f) {
				m[k] = v
			}
		} else {
			for _, b := range f.Blocks {
				for _, in := range b.Instrs {
					e.instrMod(f, in, m, nil, seen)
				}
			}
		}
	} else {
		full := f.String()
		if i := strings.Index(full, "["); i > 0 {
			full = full[:i]
		}
		if c, ok := e.db.externs[full]; ok {
			for k, v := range e.modOfContract(c, f) {
				m[k] = v
			}
		}
		for _, h := range externMods[full] {
			e.addNamedHeap(h, nil, m)
		}
	}
	delete(seen, f)
	if len(seen) == 0 {
		fnModCache[f] = m
	}
	for k, v := range m {
		mod[k] = v
	}
}

// modOfContract: declared modifies clause, or the syntactic write set of the body
type modKey struct {
	c     *Contract
	hasFn bool
}

var modOfContractMemo = map[modKey]map[string]Sort{}
var modOfContractBusy = map[*Contract]bool{}

func (e *Exec) modOfContract(c *Contract, fn *ssa.Function) (mod map[string]Sort) {
	mk0 := modKey{c, fn != nil}
	if m, ok := modOfContractMemo[mk0]; ok {
		cp := make(map[string]Sort, len(m))
		for k, v := range m {
			cp[k] = v
		}
		return cp
	}
	if modOfContractBusy[c] {
		return map[string]Sort{} // recursion: the outer computation collects everything
	}
	modOfContractBusy[c] = true
	defer func() {
		delete(modOfContractBusy, c)
		cp := make(map[string]Sort, len(mod))
		for k, v := range mod {
			cp[k] = v
		}
		modOfContractMemo[mk0] = cp
	}()
	mod = map[string]Sort{}
	defer func() {
		for _, sc := range c.Sets {
			if srt, ok := e.db.ghosts[sc.Ghost]; ok {
				if !srt.IsArr() {
					srt = ArrSort(srt)
				}
				mod["G!"+sc.Ghost] = srt
			}
		}
	}()
	if c.HasModifies || fn == nil || len(fn.Blocks) == 0 || !(fn.Pkg != nil && ownPkg(fn.Pkg.Pkg)) {
		ctx := &SpecCtx{e: e, pkg: e.pkgOf(c)}
		for _, m := range c.Modifies {
			e.addNamedHeap(m, ctx, mod)
		}
		if fn != nil && len(fn.Blocks) > 0 && fn.Pkg != nil && ownPkg(fn.Pkg.Pkg) {
			// ghost state changed by the body (through the events it performs) is
			// part of the frame automatically
			syn := map[string]Sort{}
			for _, b := range fn.Blocks {
				for _, in := range b.Instrs {
					e.instrMod(fn, in, syn, nil, map[*ssa.Function]bool{fn: true})
				}
			}
			for k, v := range syn {
				if strings.HasPrefix(k, "G!") {
					mod[k] = v
				}
			}
		}
		return mod
	}
	for _, b := range fn.Blocks {
		for _, in := range b.Instrs {
			e.instrMod(fn, in, mod, nil, map[*ssa.Function]bool{fn: true})
		}
	}
	return mod
}

// addNamedHeap resolves a heap designator of a modifies clause:
//   *            everything
//   T.f          field f of struct type T (pkg-qualified allowed: ber.Packet.Value)
//   cell(T)      cells / slice elements of type T
//   all(T)       every field of struct type T
//   G_name       ghost heap
func (e *Exec) addNamedHeap(name string, ctx *SpecCtx, mod map[string]Sort) {
	if ctx == nil {
		ctx = &SpecCtx{e: e, pkg: e.P.tpkgs[pkgGldap]}
	}
	switch {
	case name == "*":
		mod["*"] = ""
		return
	case strings.HasPrefix(name, "G_"):
		s, ok := e.db.ghosts[name[2:]]
		if !ok {
			panic(sperr("modifies: undeclared ghost %s", name))
		}
		if !s.IsArr() {
			s = ArrSort(s)
		}
		mod["G!"+name[2:]] = s
		return
	case strings.HasPrefix(name, "cell(") || strings.HasPrefix(name, "all("):
		inner := name[strings.Index(name, "(")+1 : len(name)-1]
		te, err := parseTypeExpr(inner)
		if err != nil {
			panic(sperr("modifies: %v", err))
		}
		t := ctx.resolveType(te)
		if t == nil {
			panic(sperr("modifies: unknown type %s", inner))
		}
		leafHeaps(t, mod)
		return
	}
	i := strings.LastIndex(name, ".")
	if i < 0 {
		panic(sperr("modifies: bad designator %s", name))
	}
	te, err := parseTypeExpr(name[:i])
	if err != nil {
		panic(sperr("modifies: %v", err))
	}
	t := ctx.resolveType(te)
	if t == nil {
		panic(sperr("modifies: unknown type %s", name[:i]))
	}
	s, ok := under(t).(*types.Struct)
	if !ok {
		panic(sperr("modifies: %s is not a struct", name[:i]))
	}
	for k := 0; k < s.NumFields(); k++ {
		if s.Field(k).Name() == name[i+1:] {
			if isComposite(s.Field(k).Type()) {
				leafHeaps(s.Field(k).Type(), mod)
			} else {
				h, hs, _ := fieldHeap(t, k)
				mod[h] = hs
			}
			return
		}
	}
	panic(sperr("modifies: no field %s", name))
}

// ---- loop headers -----------------------------------------------------------------

func (e *Exec) loopSpec(fn *ssa.Function, ord int) (*LoopSpec, *Contract) {
	c, ok := e.db.funcs[shortName(fn)]
	if !ok {
		return nil, nil
	}
	return c.Loops[ord], c
}

// rangeLen: for a rangeindex loop, the term of the ranged length and the index cell
func (e *Exec) rangeLoopParts(fr *Frame, lp *Loop) (idxCell *LocalCell, n *Term, ok bool) {
	b := lp.header
	if b.Comment != "rangeindex.loop" {
		return nil, nil, false
	}
	ifi, isIf := b.Instrs[len(b.Instrs)-1].(*ssa.If)
	if !isIf {
		return nil, nil, false
	}
	cmp, isB := ifi.Cond.(*ssa.BinOp)
	if !isB {
		return nil, nil, false
	}
	nv, has := fr.env[cmp.Y]
	if !has {
		if cst, isC := cmp.Y.(*ssa.Const); isC {
			nv = e.constVal(cst)
		} else {
			return nil, nil, false
		}
	}
	// index cell: first load in header
	if ld, isU := b.Instrs[0].(*ssa.UnOp); isU {
		if a, isA := ld.X.(*ssa.Alloc); isA {
			return fr.locals[a], nv.(*Term), true
		}
	}
	return nil, nil, false
}

func (e *Exec) enterLoopHeader(st *State, fr *Frame, lp *Loop) bool {
	hdr := lp.header.Index
	fromInside := fr.prev != nil && lp.blocks[fr.prev.Index]
	spec, ctr := e.loopSpec(fr.fn, lp.ord)
	idxCell, n, isRange := e.rangeLoopParts(fr, lp)
	useCut := spec != nil && len(spec.Invs) > 0
	if isRange && n.IsLit() && fr.fn != e.top {
		useCut = false // inlined helper ranging over a literal list: unroll
	}
	if !useCut && isRange && !n.IsLit() {
		useCut = true // automatic cut with the range-index bounds only
		if !fromInside && fr.fn != e.top {
			// an inlined helper ranging over a list that is empty on this path
			// (e.g. no options passed): no iteration, nothing to cut
			if cr, _ := e.sol.primary(Eq(n, IntLit(0))); cr.Res == "unsat" {
				useCut = false
			}
		}
	}
	if !useCut {
		for _, in := range lp.header.Instrs {
			if _, isNext := in.(*ssa.Next); isNext {
				useCut = true // map iteration: always a cut (order and length are symbolic)
			}
		}
	}
	if !useCut {
		if fromInside {
			fr.visits[hdr]++
			if fr.visits[hdr] > unrollLimit {
				e.fail(e.siteName(fr, "UNWIND", lp.header.Instrs[0], fmt.Sprintf("loop %d of %s needs an invariant", lp.ord, shortName(fr.fn))), "UNWIND", "loop without invariant exceeded the unrolling limit")
				return true
			}
		} else {
			fr.visits[hdr] = 0
		}
		return false
	}
	e.loopMod(fr.fn, lp)
	// heaps the loop may write that the function's modifies clause does not
	// list: the frame must be carried through the loop as an invariant
	curMod := lp.mod
	type restrSpec struct {
		heaps map[string]Sort
		expr  string
	}
	var restrs []restrSpec
	if spec != nil && len(spec.Modifies) > 0 {
		curMod = map[string]Sort{}
		ctx := &SpecCtx{e: e, pkg: fr.fn.Pkg.Pkg}
		for _, m := range spec.Modifies {
			if m == "nothing" {
				continue
			}
			if i := strings.Index(m, "@"); i > 0 {
				hm := map[string]Sort{}
				e.addNamedHeap(m[:i], ctx, hm)
				for k, v := range hm {
					curMod[k] = v
				}
				restrs = append(restrs, restrSpec{hm, m[i+1:]})
				continue
			}
			e.addNamedHeap(m, ctx, curMod)
		}
	}
	// value of a restriction expression (a slice) in the current state
	restrArr := func(expr string) *Term {
		if expr == "none" {
			return IntLit(0)
		}
		isObj := strings.HasPrefix(expr, "obj:")
		ex, err := parseSpecExpr(strings.TrimPrefix(expr, "obj:"))
		if err != nil {
			panic(sperr("%v", err))
		}
		ctx := e.loopCtx(st, fr, ctr)
		v, _ := ctx.eval(ex)
		if isObj {
			return e.term(v) // the object itself (and its sub-objects) may be written
		}
		return SlArr(e.term(v))
	}
	var autoFrame []string
	topEntry := st.frames[0].entry
	if e.topC.HasModifies && topEntry != nil {
		declared := e.modOfContract(e.topC, nil)
		if _, all := declared["*"]; !all {
			restricted := map[string]bool{}
			for _, r := range restrs {
				for h := range r.heaps {
					restricted[h] = true
				}
			}
			for name, srt := range curMod {
				if _, ok := declared[name]; !ok && name != "*" && srt.IsArr() && !restricted[name] && !strings.HasPrefix(name, "G!") {
					autoFrame = append(autoFrame, name)
				}
			}
			sort.Strings(autoFrame)
			sort.Strings(autoFrame)
		}
	}
	evalInvs := func() []*Term {
		var out []*Term
		if isRange && idxCell != nil {
			i := idxCell.v.(*Term)
			out = append(out, And(Le(IntLit(-1), i), Or(Lt(i, n), Eq(i, IntLit(-1)))))
		}
		if spec != nil {
			ctx := e.loopCtx(st, fr, ctr)
			for _, inv := range spec.Invs {
				out = append(out, ctx.evalBool(inv.Expr))
			}
		}
		for _, name := range autoFrame {
			srt := curMod[name]
			cur := st.heap(name, srt)
			old := topEntry.heap(name, srt)
			x := BoundVar("x", SInt)
			out = append(out, Forall([]*Term{x}, Implies(Allocd(topEntry.alloc, x), Eq(Select(cur, x), Select(old, x))), []*Term{Select(cur, x)}))
		}
		return out
	}
	names := func(k int) string {
		if isRange && idxCell != nil {
			if k == 0 {
				return "range index within bounds"
			}
			k--
		}
		if spec != nil && k < len(spec.Invs) {
			return spec.Invs[k].Text
		}
		if spec != nil {
			k -= len(spec.Invs)
		}
		return "objects allocated at function entry unchanged in " + autoFrame[k]
	}
	if fromInside && fr.inCut[hdr] {
		for k, t := range evalInvs() {
			e.check(st, fr, "INV.keep", lp.header.Instrs[0], fmt.Sprintf("loop %d: %s", lp.ord, names(k)), t)
		}
		if hs := fr.heads[hdr]; hs != nil {
			for _, r := range hs.restr {
				cur := st.heap(r.heap, r.sort)
				a := restrArr(r.expr)
				e.check(st, fr, "LOOPFRAME", lp.header.Instrs[0], fmt.Sprintf("loop %d: %s is the array of loop entry or was allocated later", lp.ord, r.expr),
					Or(Eq(a, r.root), Not(Allocd(r.nowEntry, a))))
				x := BoundVar("x", SInt)
				e.check(st, fr, "LOOPFRAME", lp.header.Instrs[0], fmt.Sprintf("loop %d writes %s only through %s", lp.ord, r.heap, r.expr),
					Forall([]*Term{x}, Implies(And(Allocd(r.nowEntry, x), Neq(App("rroot", SInt, x), r.root)), Eq(Select(cur, x), Select(r.entryHeap, x)))))
			}
			// heaps outside the loop's modifies clause: objects that existed at the
			// loop head must be unchanged by the iteration
			var nm []string
			for name := range st.heaps {
				nm = append(nm, name)
			}
			sort.Strings(nm)
			for _, name := range nm {
				cur := st.heaps[name]
				if !cur.S.IsArr() {
					continue
				}
				old := hs.heap(name, cur.S)
				if _, declared := hs.mods[name]; declared || old == cur {
					continue
				}
				x := BoundVar("x", SInt)
				e.check(st, fr, "LOOPFRAME", lp.header.Instrs[0], fmt.Sprintf("loop %d modifies only %s: %s", lp.ord, strings.Join(spec.Modifies, ", "), name),
					Forall([]*Term{x}, Implies(Allocd(hs.alloc, x), Eq(Select(cur, x), Select(old, x)))))
			}
		}
		e.paths++
		return true
	}
	for k, t := range evalInvs() {
		e.check(st, fr, "INV.entry", lp.header.Instrs[0], fmt.Sprintf("loop %d: %s", lp.ord, names(k)), t)
	}
	// havoc
	mod := curMod
	var restr []restrictEntry
	for _, r := range restrs {
		root := nameGround(restrArr(r.expr))
		for _, h := range sortedSortKeys(r.heaps) {
			srt := r.heaps[h]
			restr = append(restr, restrictEntry{heap: h, sort: srt, root: root, entryHeap: st.heap(h, srt), nowEntry: st.alloc, expr: r.expr})
		}
	}
	e.havocMod(st, mod)
	lallocs := make([]*ssa.Alloc, 0, len(lp.locals))
	for a := range lp.locals {
		lallocs = append(lallocs, a)
	}
	sort.Slice(lallocs, func(i, j int) bool {
		if lallocs[i].Pos() != lallocs[j].Pos() {
			return lallocs[i].Pos() < lallocs[j].Pos()
		}
		return lallocs[i].Name() < lallocs[j].Name()
	})
	for _, a := range lallocs {
		if c, ok := fr.locals[a]; ok {
			whole := false
			for _, p := range lp.lpaths[a] {
				if p == nil {
					whole = true
				}
			}
			if whole || len(lp.lpaths[a]) == 0 {
				c.v = e.freshVal(st, "loop."+c.name, c.T)
				continue
			}
			for _, p := range lp.lpaths[a] {
				t := c.T
				for _, i := range p {
					t = under(t).(*types.Struct).Field(i).Type()
				}
				c.v = pathSet(c.v, p, e.freshVal(st, "loop."+c.name, t))
			}
		}
	}
	for it := range lp.iters {
		if mi, ok := fr.env[it].(*MapIter); ok {
			fr.env[it] = e.havocIter(st, mi)
		}
	}
	for _, t := range evalInvs() {
		e.assume(t)
	}
	for _, r := range restr {
		nh := st.heap(r.heap, r.sort)
		x := BoundVar("x", SInt)
		e.assume(Forall([]*Term{x}, Implies(And(Allocd(r.nowEntry, x), Neq(App("rroot", SInt, x), r.root)), Eq(Select(nh, x), Select(r.entryHeap, x))), []*Term{Select(nh, x)}))
		a := restrArr(r.expr)
		e.assume(Or(Eq(a, r.root), Not(Allocd(r.nowEntry, a))))
	}
	fr.inCut[hdr] = true
	if spec != nil && len(spec.Modifies) > 0 {
		if fr.heads == nil {
			fr.heads = map[int]*Snapshot{}
		}
		fr.heads[hdr] = st.snapshot()
		fr.heads[hdr].mods = mod
		fr.heads[hdr].restr = restr
	}
	// nested loops start afresh
	for _, other := range e.loopInfo(fr.fn).list {
		if other != lp && lp.blocks[other.header.Index] {
			delete(fr.inCut, other.header.Index)
		}
	}
	return false
}

// loopCtx: spec context in which named local variables denote their current value
func (e *Exec) loopCtx(st *State, fr *Frame, c *Contract) *SpecCtx {
	top := st.frames[0]
	ctx := e.newSpecCtx(st, fr.fn.Pkg.Pkg, top.entry)
	e.bindFrameVars(ctx, fr)
	return ctx
}

// bindFrameVars makes parameters, free variables and named locals of the frame
// visible to spec expressions (current values).
func (e *Exec) bindFrameVars(ctx *SpecCtx, fr *Frame) {
	ctx.fr = fr
	for _, p := range fr.fn.Params {
		p := p
		ctx.vars[p.Name()] = &specVar{v: fr.env[p], t: p.Type()}
	}
	for _, fv := range fr.fn.FreeVars {
		fv := fv
		pt := fv.Type().Underlying().(*types.Pointer).Elem()
		ctx.vars[fv.Name()] = &specVar{get: func(c *SpecCtx) (Val, types.Type) {
			return c.loadAt(fr.env[fv], pt), pt
		}}
	}
	// named locals: latest allocation with that name wins; shadowed names can
	// be addressed as name__k (k-th declaration in source order)
	count := map[string]int{}
	for _, b := range fr.fn.Blocks {
		for _, in := range b.Instrs {
			a, ok := in.(*ssa.Alloc)
			if !ok || a.Comment == "" || strings.Contains(a.Comment, "$") || a.Comment == "complit" || a.Comment == "varargs" {
				continue
			}
			name := a.Comment
			if name == "makeslice" || name == "slicelit" || name == "new" {
				continue
			}
			count[name]++
			a2 := a
			pt := a.Type().Underlying().(*types.Pointer).Elem()
			get := func(c *SpecCtx) (Val, types.Type) {
				addr, ok := fr.env[a2]
				if !ok {
					return zeroVal(pt), pt
				}
				return c.loadAt(addr, pt), pt
			}
			if _, isParam := ctx.vars[name]; !isParam || fr.env[a2] != nil {
				if _, have := fr.env[a2]; have || ctx.vars[name] == nil {
					ctx.vars[name] = &specVar{get: get}
				}
			}
			ctx.vars[fmt.Sprintf("%s__%d", name, count[name])] = &specVar{get: get}
		}
	}
}
