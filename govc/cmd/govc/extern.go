package main

// Catalogue of trusted contracts for functions outside the two verified
// packages, and the Go builtins. Every entry used by a run is listed in the
// evidence file under assumptions.

import (
	"os"
	"fmt"
	"go/types"

	"golang.org/x/tools/go/ssa"
)

type externFn func(e *Exec, st *State, fr *Frame, site ssa.Instruction, args []Val, k contFn) bool

var externs = map[string]externFn{}
var externMods = map[string][]string{}
var externDoc = map[string]string{}

func reg(name, doc string, f externFn, mods ...string) {
	externs[name] = f
	externDoc[name] = doc
	if len(mods) > 0 {
		externMods[name] = mods
	}
}

// simple helper: function with no effect on verified state returning fresh values
func pureFresh(doc string) (string, externFn) {
	return doc, func(e *Exec, st *State, fr *Frame, site ssa.Instruction, args []Val, k contFn) bool {
		k(st, e.freshResults(st, site))
		return false
	}
}

func (e *Exec) freshResults(st *State, site ssa.Instruction) Val {
	var sig *types.Signature
	switch s := site.(type) {
	case *ssa.Call:
		sig = s.Call.Signature()
	case *ssa.Defer:
		sig = s.Call.Signature()
	case *ssa.Go:
		sig = s.Call.Signature()
	}
	rs := sig.Results()
	switch rs.Len() {
	case 0:
		return TupleVal{}
	case 1:
		return e.freshVal(st, "ext", rs.At(0).Type())
	}
	tv := make(TupleVal, rs.Len())
	for i := range tv {
		tv[i] = e.freshVal(st, "ext", rs.At(i).Type())
	}
	return tv
}

func (e *Exec) freshErr(st *State, nonNil bool) *Term {
	if nonNil {
		// a concrete dynamic type id lets `err != nil` fold without the solver
		r := Const(freshName("errobj"), SInt)
		e.assume(Gt(r, IntLit(0)))
		return MkIface(IntLit(int64(tidErrObj())), r, IntLit(0), TFalse, EmptyStr)
	}
	v := e.freshVal(st, "err", types.Universe.Lookup("error").Type()).(*Term)
	return v
}

var errObjType types.Type

func tidErrObj() int {
	if errObjType == nil {
		errObjType = types.NewPointer(types.NewNamed(types.NewTypeName(0, nil, "govcErrorObject", nil), types.NewStruct(nil, nil), nil))
	}
	return tidOf(errObjType)
}

// ---- builtins ------------------------------------------------------------------------

func (e *Exec) builtin(st *State, fr *Frame, site ssa.Instruction, b *ssa.Builtin, cc *ssa.CallCommon, args []Val) Val {
	switch b.Name() {
	case "len":
		switch under(cc.Args[0].Type()).(type) {
		case *types.Slice:
			return SlLen(e.term(args[0]))
		case *types.Basic:
			return SLen(e.term(args[0]))
		case *types.Map:
			return e.mapLen(st.heap, e.term(args[0]))
		case *types.Array:
			return IntLit(under(cc.Args[0].Type()).(*types.Array).Len())
		case *types.Pointer:
			return IntLit(under(cc.Args[0].Type().Underlying().(*types.Pointer).Elem()).(*types.Array).Len())
		}
	case "cap":
		if _, ok := under(cc.Args[0].Type()).(*types.Slice); ok {
			return SlCap(e.term(args[0]))
		}
	case "append":
		return e.appendOp(st, fr, site, cc, args)
	case "copy":
		return e.copyOp(st, fr, site, cc, args)
	case "delete":
		mt := under(cc.Args[0].Type()).(*types.Map)
		m, key := e.term(args[0]), e.term(args[1])
		hs := mapHeaps(mt)
		dom, _, _, _ := e.mapParts(st.heap, m, mt)
		e.setHeap(st, hs[0].name, hs[0].sort, Store(st.heap(hs[0].name, hs[0].sort), m, mk("store", dom.S, dom, key, TFalse)))
		return TupleVal{}
	case "recover":
		// effective only when called directly by a deferred function while panicking
		if st.panicking && fr.isDefer && len(st.frames) >= 2 && st.frames[len(st.frames)-2].unwind {
			st.panicking = false
			r := e.freshVal(st, "recovered", types.NewInterfaceType(nil, nil)).(*Term)
			e.assume(Neq(IfTid(r), IntLit(0)))
			return r
		}
		return NilIface
	case "ssa:wrapnilchk":
		e.nilCheck(st, fr, site, args[0])
		return args[0]
	case "ssa:deferstack":
		return IntLit(0)
	case "print", "println":
		return TupleVal{}
	}
	panic(unsupported("builtin " + b.Name()))
}

// leaves of an element of type t located at ref: (heap, index) pairs
type leaf struct {
	heap string
	sort Sort
	idx  func(base *Term) *Term
}

func leavesOf(t types.Type) []leaf {
	var out []leaf
	var walk func(t types.Type, path func(*Term) *Term)
	walk = func(t types.Type, path func(*Term) *Term) {
		switch u := under(t).(type) {
		case *types.Struct:
			for i := 0; i < u.NumFields(); i++ {
				ft := u.Field(i).Type()
				i := i
				if isComposite(ft) {
					walk(ft, func(b *Term) *Term { return faTerm(t, i, path(b)) })
				} else {
					h, s, _ := fieldHeap(t, i)
					out = append(out, leaf{h, s, path})
				}
			}
		case *types.Array:
			for j := int64(0); j < u.Len(); j++ {
				j := j
				walk(u.Elem(), func(b *Term) *Term { return El(path(b), IntLit(j)) })
			}
		default:
			h, s := cellHeap(t)
			out = append(out, leaf{h, s, path})
		}
	}
	walk(t, func(b *Term) *Term { return b })
	return out
}

func (e *Exec) appendOp(st *State, fr *Frame, site ssa.Instruction, cc *ssa.CallCommon, args []Val) Val {
	s := e.term(args[0])
	st0 := under(cc.Args[0].Type()).(*types.Slice)
	et := st0.Elem()
	var n *Term
	var srcElem func(i *Term) Val // value of the i-th appended element
	var srcRef func(i *Term) *Term
	switch under(cc.Args[1].Type()).(type) {
	case *types.Slice:
		t := e.term(args[1])
		n = SlLen(t)
		srcRef = func(i *Term) *Term { return elemRef(t, i) }
		srcElem = func(i *Term) Val { return e.load(st, elemRef(t, i), et) }
	case *types.Basic:
		if cst, ok := cc.Args[1].(*ssa.Const); ok && cst.Value == nil {
			return s // append(s, nil...)
		}
		str := e.term(args[1])
		n = SLen(str)
		srcElem = func(i *Term) Val { return App("s_at", SInt, str, i) }
	}
	ln, cp := SlLen(s), SlCap(s)
	newLen := Add(ln, n)
	inPlace := Le(newLen, cp)
	small := n.IsLit() && n.LitVal().IsInt64() && n.LitVal().Int64() <= 8
	// appended elements are read before any write
	var vals []Val
	if small {
		for i := int64(0); i < n.LitVal().Int64(); i++ {
			vals = append(vals, srcElem(IntLit(i)))
		}
	}
	writeNew := func(s2 *State, res *Term) {
		if small {
			for i, v := range vals {
				e.store(s2, elemRef(res, Add(ln, IntLit(int64(i)))), et, v)
			}
			return
		}
		// symbolic count: quantified update of every leaf heap
		for _, lf := range leavesOf(et) {
			old := s2.heap(lf.heap, lf.sort)
			nh := e.havocHeap(s2, lf.heap, lf.sort)
			kk := BoundVar("k", SInt)
			dst := lf.idx(elemRef(res, Add(ln, kk)))
			var srcv *Term
			if srcRef != nil {
				srcv = Select(old, lf.idx(srcRef(kk)))
			} else {
				srcv = e.term(srcElem(kk))
			}
			e.assume(Forall([]*Term{kk}, Implies(And(Le(IntLit(0), kk), Lt(kk, n)), Eq(Select(nh, dst), srcv)), []*Term{Select(nh, dst)}))
			// frame: everything outside the written window is unchanged
			x := BoundVar("x", SInt)
			if len(leavesOf(et)) == 1 && !isComposite(et) {
				inWin := And(Eq(App("rkind", SInt, x), IntLit(1)), Eq(App("el_arr", SInt, x), SlArr(res)),
					Le(Add(SlOff(res), ln), App("el_idx", SInt, x)), Lt(App("el_idx", SInt, x), Add(SlOff(res), newLen)))
				e.assume(Forall([]*Term{x}, Implies(Not(inWin), Eq(Select(nh, x), Select(old, x))), []*Term{Select(nh, x)}))
				if srcRef != nil {
					// the same window, stated over the destination cell (matches any index arithmetic)
					y := BoundVar("y", SInt)
					inWinY := Subst(inWin, map[*Term]*Term{x: y})
					srcY := Select(old, srcRef(Sub(App("el_idx", SInt, y), Add(SlOff(res), ln))))
					e.assume(Forall([]*Term{y}, Implies(inWinY, Eq(Select(nh, y), srcY)), []*Term{Select(nh, y)}))
				}
			} else {
				panic(unsupported("append of a symbolic number of composite elements"))
			}
		}
	}
	k := func(s2 *State, res *Term) {
		f := s2.top()
		f.env[site.(ssa.Value)] = res
		f.pc++
	}
	e.split(st, inPlace, func(s2 *State) {
		res := MkSlice(SlArr(s), SlOff(s), newLen, cp)
		writeNew(s2, res)
		k(s2, res)
	}, func(s2 *State) {
		arr := e.newObject(s2, "arr", nil, nil)
		ncap := Const(freshName("cap"), SInt)
		e.sol.DeclareConst(ncap)
		e.assume(Ge(ncap, newLen))
		res := MkSlice(arr, IntLit(0), newLen, ncap)
		// old elements copied: assumed of the fresh array (A-FRESH)
		for _, lf := range leavesOf(et) {
			h := s2.heap(lf.heap, lf.sort)
			kk := BoundVar("k", SInt)
			dst := Select(h, lf.idx(El(arr, kk)))
			src := Select(h, lf.idx(elemRef(s, kk)))
			e.assume(Forall([]*Term{kk}, Implies(And(Le(IntLit(0), kk), Lt(kk, ln)), Eq(dst, src)), []*Term{dst}))
		}
		writeNew(s2, res)
		k(s2, res)
	})
	return pathDone
}

func (e *Exec) copyOp(st *State, fr *Frame, site ssa.Instruction, cc *ssa.CallCommon, args []Val) Val {
	dst := e.term(args[0])
	et := under(cc.Args[0].Type()).(*types.Slice).Elem()
	var n *Term
	var srcAt func(old *Term, lf leaf, k *Term) *Term
	if _, isStr := under(cc.Args[1].Type()).(*types.Basic); isStr {
		s := e.term(args[1])
		n = Ite(Le(SlLen(dst), SLen(s)), SlLen(dst), SLen(s))
		srcAt = func(old *Term, lf leaf, k *Term) *Term { return App("s_at", SInt, s, k) }
	} else {
		src := e.term(args[1])
		n = Ite(Le(SlLen(dst), SlLen(src)), SlLen(dst), SlLen(src))
		srcAt = func(old *Term, lf leaf, k *Term) *Term { return Select(old, lf.idx(elemRef(src, k))) }
	}
	nn := Const(freshName("ncopy"), SInt)
	e.sol.DeclareConst(nn)
	e.assume(Eq(nn, n))
	lvs := leavesOf(et)
	for _, lf := range lvs {
		old := st.heap(lf.heap, lf.sort)
		nh := e.havocHeap(st, lf.heap, lf.sort)
		kk := BoundVar("k", SInt)
		d := lf.idx(elemRef(dst, kk))
		e.assume(Forall([]*Term{kk}, Implies(And(Le(IntLit(0), kk), Lt(kk, nn)), Eq(Select(nh, d), srcAt(old, lf, kk))), []*Term{Select(nh, d)}))
		x := BoundVar("x", SInt)
		if len(lvs) == 1 && !isComposite(et) {
			inWin := And(Eq(App("rkind", SInt, x), IntLit(1)), Eq(App("el_arr", SInt, x), SlArr(dst)),
				Le(SlOff(dst), App("el_idx", SInt, x)), Lt(App("el_idx", SInt, x), Add(SlOff(dst), nn)))
			e.assume(Forall([]*Term{x}, Implies(Not(inWin), Eq(Select(nh, x), Select(old, x))), []*Term{Select(nh, x)}))
			y := BoundVar("y", SInt)
			inWinY := Subst(inWin, map[*Term]*Term{x: y})
			e.assume(Forall([]*Term{y}, Implies(inWinY, Eq(Select(nh, y), srcAt(old, lf, Sub(App("el_idx", SInt, y), SlOff(dst))))), []*Term{Select(nh, y)}))
		} else {
			panic(unsupported("copy of composite elements"))
		}
	}
	return nn
}

// ---- catalogue ---------------------------------------------------------------------------

func init() {
	noEffect := func(doc string) externFn {
		_, f := pureFresh(doc)
		return f
	}
	// fmt
	reg("fmt.Errorf", "returns a non-nil error; no effect on verified state; does not panic", func(e *Exec, st *State, fr *Frame, site ssa.Instruction, args []Val, k contFn) bool {
		k(st, e.freshErr(st, true))
		return false
	})
	reg("errors.New", "returns a non-nil error", func(e *Exec, st *State, fr *Frame, site ssa.Instruction, args []Val, k contFn) bool {
		k(st, e.freshErr(st, true))
		return false
	})
	reg("fmt.Sprintf", "a function of the format and the arguments when all arguments are strings (uninterpreted); an opaque string otherwise; no effect on verified state; does not panic (A-STD)", func(e *Exec, st *State, fr *Frame, site ssa.Instruction, args []Val, k contFn) bool {
		if r := e.sprintfTerm(st, site, args); r != nil {
			k(st, r)
			return false
		}
		k(st, e.freshResults(st, site))
		return false
	})
	for _, n := range []string{"fmt.Sprint", "fmt.Println", "fmt.Fprintf", "fmt.Printf", "fmt.Fprintln"} {
		reg(n, "result is an opaque value; no effect on verified state; does not panic (A-LOG/A-STD)", noEffect(""))
	}
	reg("errors.Is", "opaque boolean", noEffect(""))
	reg("golang.org/x/exp/slices.Contains", "opaque boolean; no effect on verified state; does not panic", noEffect(""))
	reg("slices.Contains", "opaque boolean; no effect on verified state; does not panic", noEffect(""))
	for _, n := range []string{"strings.Contains", "strings.EqualFold", "strings.HasPrefix", "strings.IndexByte", "strings.Trim", "strings.TrimPrefix", "strings.TrimSuffix", "strings.TrimSpace", "strings.ReplaceAll", "strings.Repeat"} {
		n := n
		reg(n, "a function of its arguments (uninterpreted)", func(e *Exec, st *State, fr *Frame, site ssa.Instruction, args []Val, k contFn) bool {
			k(st, e.uninterp(st, n, site, args))
			return false
		})
	}
	reg("strconv.FormatInt", "a function of its arguments (uninterpreted)", func(e *Exec, st *State, fr *Frame, site ssa.Instruction, args []Val, k contFn) bool {
		k(st, e.uninterp(st, "strconv.FormatInt", site, args))
		return false
	})
	reg("strconv.ParseInt", "returns (v, nil) or (0, err); parse(format(x,10),10,64) == x", func(e *Exec, st *State, fr *Frame, site ssa.Instruction, args []Val, k contFn) bool {
		v := e.freshVal(st, "parsed", types.Typ[types.Int64]).(*Term)
		err := e.freshErr(st, false)
		s := e.term(args[0])
		declFun("|u!strconv.FormatInt|", SStr, SInt, SInt)
		x := BoundVar("x", SInt)
		f := App("|u!strconv.FormatInt|", SStr, x, IntLit(10))
		declFun("parse10", SInt, SStr)
		declFun("parse10ok", SBool, SStr)
		funAxioms["parse10"] = []*Term{Forall([]*Term{x}, And(Eq(App("parse10", SInt, f), x), App("parse10ok", SBool, f)), []*Term{f})}
		e.assume(And(Eq(Eq(IfTid(err), IntLit(0)), App("parse10ok", SBool, s)), Implies(Eq(IfTid(err), IntLit(0)), Eq(v, App("parse10", SInt, s)))))
		k(st, TupleVal{v, err})
		return false
	})
}

// uninterp: result = f(args) for an uninterpreted f keyed by the callee name
func (e *Exec) uninterp(st *State, name string, site ssa.Instruction, args []Val) Val {
	sig := site.(ssa.CallInstruction).Common().Signature()
	rs := sig.Results()
	var ts []*Term
	var ss []Sort
	for _, a := range args {
		t := e.term(a)
		ts = append(ts, t)
		ss = append(ss, t.S)
	}
	mkRes := func(i int) *Term {
		fn := fmt.Sprintf("|u!%s|", name)
		if rs.Len() > 1 {
			fn = fmt.Sprintf("|u!%s!%d|", name, i)
		}
		rsrt := sortOf(rs.At(i).Type())
		declFun(fn, rsrt, ss...)
		r := App(fn, rsrt, ts...)
		e.assumeOnce(r, func() *Term { return e.wfTerm(st, r, rs.At(i).Type()) })
		return r
	}
	if rs.Len() == 1 {
		return mkRes(0)
	}
	tv := make(TupleVal, rs.Len())
	for i := range tv {
		tv[i] = mkRes(i)
	}
	return tv
}

// sprintfTerm: fmt.Sprintf(format, s1..sn) with a literal number of arguments,
// all of dynamic type string (or a named string type): u!sprintf<n>(format, s1..sn)
func (e *Exec) sprintfTerm(st *State, site ssa.Instruction, args []Val) (res *Term) {
	if os.Getenv("GOVC_TRACE") != "" {
		defer func() { fmt.Fprintf(os.Stderr, "sprintfTerm: %v args=%d\n", res != nil, len(args)) }()
	}
	if len(args) != 2 {
		return nil
	}
	sl, ok := args[1].(*Term)
	if !ok || sl.S != SSlice || !SlLen(sl).IsLit() {
		return nil
	}
	n := int(SlLen(sl).LitVal().Int64())
	if n == 0 || n > 4 {
		return nil
	}
	ps := site.(ssa.CallInstruction).Common().Signature().Params()
	it := ps.At(ps.Len() - 1).Type().Underlying().(*types.Slice).Elem()
	ts := []*Term{e.term(args[0])}
	for i := 0; i < n; i++ {
		v, ok := e.load(st, elemRef(sl, IntLit(int64(i))), it).(*Term)
		if !ok || v.S != SIface {
			return nil
		}
		tid := IfTid(v)
		if !tid.IsLit() {
			if os.Getenv("GOVC_TRACE") != "" {
				fmt.Fprintf(os.Stderr, "sprintfTerm: element %d: %s\n", i, v)
			}
			return nil
		}
		dt, ok := tidTypes[int(tid.LitVal().Int64())]
		if !ok {
			return nil
		}
		if b, isB := dt.Underlying().(*types.Basic); !isB || b.Kind() != types.String {
			return nil
		}
		ts = append(ts, IfStr(v))
	}
	return sprintfApp(ts)
}

func sprintfApp(ts []*Term) *Term {
	name := fmt.Sprintf("|u!sprintf%d|", len(ts)-1)
	ss := make([]Sort, len(ts))
	for i := range ss {
		ss[i] = SStr
	}
	declFun(name, SStr, ss...)
	return App(name, SStr, ts...)
}
