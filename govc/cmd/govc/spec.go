package main

// Contract files: comment-only Go files (build tag verif) whose //@ lines hold
// the contracts, keyed by ssa function name and loop ordinal.

import (
	"fmt"
	"go/ast"
	"go/constant"
	"go/parser"
	"go/token"
	"go/types"
	"math/big"
	"os"
	"regexp"
	"strconv"
	"strings"

	"golang.org/x/tools/go/ssa"
)

type Clause struct {
	Kind string
	Text string
	Expr ast.Expr
	Tags []string
	Line string
}

type LoopSpec struct {
	Ord      int
	Invs     []*Clause
	Modifies []string
}

type Contract struct {
	Name        string
	Pkg         string
	Requires    []*Clause
	Ensures     []*Clause
	Exits       []*Clause // must hold at every exit, normal or panicking
	Entry       []*Clause // assumed when verified as a thread root; not checked at go sites
	Sets        []*SetClause
	Panics      string    // "false" | "any" | "when"
	NoLocks     []string  // functype contracts: `callernolocks Cxx ...` - the caller holds no lock it acquired itself
	PanicsWhen  *Clause
	Modifies    []string
	HasModifies bool
	Inline      bool
	InlineLit   bool // inline at call sites whose variadic list has a literal length
	Trusted     bool
	Tags        []string
	SafeTags    []string
	Loops       map[int]*LoopSpec
	Shapes      []string
	Thread      string
	Lemma       bool
	Params      []pparam // for method/functype/lemma contracts
	Results     []pparam
	File        string
}

// sets G_name[idx] = value when cond : ghost assignment at the function's exit
type SetClause struct {
	Ghost string
	Idx   ast.Expr
	Val   ast.Expr
	When  ast.Expr
	Text  string
}

type pparam struct {
	Name string
	Type ast.Expr
}

type PureFn struct {
	Name     string
	Pkg      string
	Params   []pparam
	Result   ast.Expr
	Body      ast.Expr
	Abstract  bool
	Recursive bool
}

// Protect: a field that may only be accessed with the lock field of the same
// object held (or before the object is published, or in the listed functions)
type Protect struct {
	Field    string
	Lock     string
	Unlocked map[string]bool
	Text     string
	st       types.Type
	lockIdx  int
}

// WriteOnly: `writeonly[Cxx] pkg.Type.field by fn [, fn ...]`: the field is assigned only in the named
// functions (package-wide frame condition, decided by a scan of every store in the own packages).
type WriteOnly struct {
	Field string
	By    map[string]bool
	Tags  []string
	Text  string
}

// CallGuard: `callguard[Cxx] <expr> : <external function> [, ...]`: every call of one of the named
// external functions (or `iface:pkg.Iface.method`) made by a function under contract must satisfy
// expr at the call site, e.g. "not on the accept loop" for calls that wait for a client.
type CallGuard struct {
	Expr  ast.Expr
	Text  string
	Tags  []string
	Names map[string]bool
}

// CallOnly: `callonly[Cxx] <external function> [, ...] by <function> [, ...]`: the named external
// functions (or `iface:pkg.Iface.method`) are called only in the listed functions of the own
// packages (package-wide condition, decided by a scan of every call site).
type CallOnly struct {
	Names map[string]bool
	By    map[string]bool
	Tags  []string
	Text  string
}

type ContractDB struct {
	funcs    map[string]*Contract
	pures    map[string]*PureFn
	methods  map[string]*Contract // "pkg.Iface.method"
	ftypes   map[string]*Contract // "pkg.FuncType"
	externs  map[string]*Contract // external functions with spec-language contracts
	ghosts   map[string]Sort
	lockinvs map[string]*Clause // "pkg.Type.field" -> invariant over `this`
	protects map[string]string
	wgorders map[string]*Clause
	protectList []*Protect
	writeonly   []*WriteOnly
	callguards  []*CallGuard
	callonly    []*CallOnly
	protectH    map[string]*Protect // by heap name, resolved lazily
	nonnull  []string // heap designators whose loaded values are never nil (trusted type invariants)
	nonnullH map[string]bool
	scan     []string // trusted/abstract/axiom lines, reported in evidence
	files    []string
}

func newDB() *ContractDB {
	return &ContractDB{funcs: map[string]*Contract{}, pures: map[string]*PureFn{}, methods: map[string]*Contract{}, ftypes: map[string]*Contract{},
		externs: map[string]*Contract{}, ghosts: map[string]Sort{"bufdata": SStr, "pktnew": SBool, "closedch": SBool, "rsrc": SIface, "wdst": SIface, "npend": SInt, "held": SBool, "rheld": SBool},
		lockinvs: map[string]*Clause{}, protects: map[string]string{}}
}

var implRe = regexp.MustCompile(`==>`)

// rewriteImplies turns  a ==> b  into implies__(a, b) at every nesting level.
func rewriteImplies(s string) string {
	// find matching structure
	var out strings.Builder
	// split into top-level comma segments, recursing into parens
	type seg struct{ text string }
	var process func(s string) string
	process = func(s string) string {
		// first recurse into parenthesised groups
		var b strings.Builder
		depth := 0
		start := -1
		inStr := byte(0)
		for i := 0; i < len(s); i++ {
			c := s[i]
			if inStr != 0 {
				if depth == 0 {
					b.WriteByte(c)
				}
				if c == '\\' && i+1 < len(s) {
					i++
					if depth == 0 {
						b.WriteByte(s[i])
					}
					continue
				}
				if c == inStr {
					inStr = 0
				}
				continue
			}
			switch c {
			case '"', '\'', '`':
				inStr = c
				if depth == 0 {
					b.WriteByte(c)
				}
			case '(', '[':
				if depth == 0 {
					start = i
				}
				depth++
			case ')', ']':
				depth--
				if depth == 0 {
					inner := s[start+1 : i]
					b.WriteByte(s[start])
					b.WriteString(processList(inner, process))
					b.WriteByte(c)
				}
			default:
				if depth == 0 {
					b.WriteByte(c)
				}
			}
		}
		flat := b.String()
		// now split on top-level ==> (right associative)
		idx := topLevelIndex(flat, "==>")
		if idx < 0 {
			return flat
		}
		return "implies__(" + strings.TrimSpace(flat[:idx]) + ", " + process(flat[idx+3:]) + ")"
	}
	out.WriteString(processList(s, process))
	return out.String()
}

func processList(s string, process func(string) string) string {
	// split on top-level commas
	var parts []string
	depth := 0
	last := 0
	inStr := byte(0)
	for i := 0; i < len(s); i++ {
		c := s[i]
		if inStr != 0 {
			if c == '\\' {
				i++
				continue
			}
			if c == inStr {
				inStr = 0
			}
			continue
		}
		switch c {
		case '"', '\'', '`':
			inStr = c
		case '(', '[', '{':
			depth++
		case ')', ']', '}':
			depth--
		case ',':
			if depth == 0 {
				parts = append(parts, s[last:i])
				last = i + 1
			}
		}
	}
	parts = append(parts, s[last:])
	for i, p := range parts {
		parts[i] = process(p)
	}
	return strings.Join(parts, ",")
}

func topLevelIndex(s, pat string) int {
	depth := 0
	inStr := byte(0)
	for i := 0; i+len(pat) <= len(s); i++ {
		c := s[i]
		if inStr != 0 {
			if c == '\\' {
				i++
				continue
			}
			if c == inStr {
				inStr = 0
			}
			continue
		}
		switch c {
		case '"', '\'', '`':
			inStr = c
		case '(', '[', '{':
			depth++
		case ')', ']', '}':
			depth--
		}
		if depth == 0 && strings.HasPrefix(s[i:], pat) {
			return i
		}
	}
	return -1
}

func parseSpecExpr(text string) (ast.Expr, error) {
	t := rewriteImplies(text)
	ex, err := parser.ParseExpr(t)
	if err != nil {
		return nil, fmt.Errorf("spec expression %q: %v", text, err)
	}
	return ex, nil
}

var clauseKw = map[string]bool{"requires": true, "ensures": true, "panics": true, "callernolocks": true, "modifies": true, "inline": true, "trusted": true, "tags": true,
	"safety": true, "invariant": true, "exit": true, "entry": true, "shapes": true, "thread": true, "params": true, "results": true, "sets": true}

func (db *ContractDB) loadFile(path, pkg string) error {
	b, err := os.ReadFile(path)
	if err != nil {
		return err
	}
	db.files = append(db.files, path)
	var lines []string
	for _, l := range strings.Split(string(b), "\n") {
		t := strings.TrimSpace(l)
		if !strings.HasPrefix(t, "//@") {
			continue
		}
		t = strings.TrimSpace(strings.TrimPrefix(t, "//@"))
		if t == "" || strings.HasPrefix(t, "#") {
			continue
		}
		// strip trailing comment  " // ..."
		if i := strings.Index(t, " // "); i >= 0 {
			t = strings.TrimSpace(t[:i])
		}
		lines = append(lines, t)
	}
	// join continuation lines: a line that does not start with a keyword
	// continues the previous one
	topKw := map[string]bool{"func": true, "loop": true, "pure": true, "abstract": true, "ghost": true, "method": true, "functype": true,
		"extern": true, "lockinv": true, "protect": true, "writeonly": true, "callguard": true, "callonly": true, "axiom": true, "lemma": true, "wgres": true, "wgorder": true, "nonnull": true, "predicate": true}
	var joined []string
	for _, l := range lines {
		w := strings.Fields(l)[0]
		if i := strings.Index(w, "["); i > 0 {
			w = w[:i]
		}
		if clauseKw[w] || topKw[w] {
			joined = append(joined, l)
		} else if len(joined) > 0 {
			joined[len(joined)-1] += " " + l
		} else {
			return fmt.Errorf("%s: dangling line %q", path, l)
		}
	}
	var cur *Contract
	var curLoop *LoopSpec
	for _, l := range joined {
		w := strings.Fields(l)[0]
		if i := strings.Index(w, "["); i > 0 {
			w = w[:i]
		}
		rest := strings.TrimSpace(strings.TrimPrefix(l, w))
		switch w {
		case "func", "method", "functype", "extern", "lemma":
			cur = &Contract{Name: rest, Pkg: pkg, Panics: "false", Loops: map[int]*LoopSpec{}, File: path}
			curLoop = nil
			switch w {
			case "func":
				if _, dup := db.funcs[rest]; dup {
					return fmt.Errorf("duplicate contract for %s", rest)
				}
				db.funcs[rest] = cur
			case "method":
				db.methods[rest] = cur
			case "functype":
				db.ftypes[rest] = cur
			case "extern":
				db.externs[rest] = cur
				cur.Trusted = true
				db.scan = append(db.scan, "extern "+rest)
			case "lemma":
				cur.Lemma = true
				db.funcs["lemma:"+rest] = cur
			}
		case "loop":
			n, err := strconv.Atoi(rest)
			if err != nil || cur == nil {
				return fmt.Errorf("%s: bad loop line %q", path, l)
			}
			curLoop = &LoopSpec{Ord: n}
			cur.Loops[n] = curLoop
		case "pure", "abstract", "predicate":
			if w == "predicate" {
				// predicate name(p T) = body   (result type bool implied)
				k := topLevelIndex(rest, " = ")
				if k < 0 {
					return fmt.Errorf("%s: predicate without body: %s", path, rest)
				}
				rest = rest[:k] + " bool" + rest[k:]
			}
			pf, err := parsePure(rest, w == "abstract")
			if err != nil {
				return fmt.Errorf("%s: %v", path, err)
			}
			pf.Pkg = pkg
			pf.Recursive = w == "predicate"
			db.pures[pf.Name] = pf
			if w == "abstract" {
				db.scan = append(db.scan, "abstract "+rest)
			}
		case "ghost":
			f := strings.Fields(rest)
			s := SInt
			if len(f) > 1 {
				s = Sort(f[1])
			}
			db.ghosts[f[0]] = s
		case "lockinv":
			i := strings.Index(rest, ":")
			ex, err := parseSpecExpr(rest[i+1:])
			if err != nil {
				return err
			}
			db.lockinvs[strings.TrimSpace(rest[:i])] = &Clause{Kind: "lockinv", Text: strings.TrimSpace(rest[i+1:]), Expr: ex}
		case "wgorder":
			// wgorder pkg.Type.field : expr over `this` - must hold at every Add(positive) on that WaitGroup
			i := strings.Index(rest, ":")
			ex, err := parseSpecExpr(rest[i+1:])
			if err != nil {
				return err
			}
			if db.wgorders == nil {
				db.wgorders = map[string]*Clause{}
			}
			db.wgorders[strings.TrimSpace(rest[:i])] = &Clause{Kind: "wgorder", Text: strings.TrimSpace(rest[i+1:]), Expr: ex}
			db.scan = append(db.scan, "wgorder "+rest)
		case "nonnull":
			db.nonnull = append(db.nonnull, rest)
			db.scan = append(db.scan, "nonnull "+rest)
		case "protect":
			// protect <pkg>.<Type>.<field> by <lockfield> [unlocked <function> ...]
			f := strings.Fields(rest)
			if len(f) < 3 || f[1] != "by" {
				return fmt.Errorf("%s: protect: expected `<pkg>.<Type>.<field> by <lockfield> [unlocked fn...]`: %q", path, l)
			}
			pr := &Protect{Field: f[0], Lock: f[2], Unlocked: map[string]bool{}, Text: rest}
			for i := 3; i < len(f); i++ {
				if f[i] == "unlocked" || f[i] == "readers" {
					continue
				}
				pr.Unlocked[strings.TrimSuffix(f[i], ",")] = true
			}
			db.protectList = append(db.protectList, pr)
			db.scan = append(db.scan, "protect "+rest)
		case "callguard":
			cg := &CallGuard{Names: map[string]bool{}}
			r := rest
			if strings.HasPrefix(r, "[") {
				j := strings.Index(r, "]")
				cg.Tags = strings.Split(r[1:j], ",")
				r = strings.TrimSpace(r[j+1:])
			}
			i := strings.Index(r, " : ")
			if i < 0 {
				return fmt.Errorf("%s: callguard: expected `<expr> : <function>, ...`: %q", path, l)
			}
			ex, err := parseSpecExpr(strings.TrimSpace(r[:i]))
			if err != nil {
				return fmt.Errorf("%s: callguard: %v", path, err)
			}
			cg.Expr, cg.Text = ex, strings.TrimSpace(r[:i])
			for _, x := range strings.Split(r[i+3:], ",") {
				if x = strings.TrimSpace(x); x != "" {
					cg.Names[x] = true
				}
			}
			db.callguards = append(db.callguards, cg)
		case "callonly":
			co := &CallOnly{Names: map[string]bool{}, By: map[string]bool{}}
			r := rest
			if strings.HasPrefix(r, "[") {
				j := strings.Index(r, "]")
				co.Tags = strings.Split(r[1:j], ",")
				r = strings.TrimSpace(r[j+1:])
			}
			i := strings.Index(r, " by ")
			if i < 0 {
				return fmt.Errorf("%s: callonly: expected `<function>, ... by <function>, ...`: %q", path, l)
			}
			co.Text = r
			for _, x := range strings.Split(r[:i], ",") {
				if x = strings.TrimSpace(x); x != "" {
					co.Names[x] = true
				}
			}
			for _, x := range strings.Split(r[i+4:], ",") {
				if x = strings.TrimSpace(x); x != "" {
					co.By[x] = true
				}
			}
			db.callonly = append(db.callonly, co)
		case "writeonly":
			// writeonly[Cxx,...] <pkg>.<Type>.<field> by <function> [, <function> ...]
			wo := &WriteOnly{By: map[string]bool{}}
			r := rest
			if strings.HasPrefix(r, "[") {
				j := strings.Index(r, "]")
				wo.Tags = strings.Split(r[1:j], ",")
				r = strings.TrimSpace(r[j+1:])
			}
			f := strings.Fields(r)
			if len(f) < 3 || f[1] != "by" {
				return fmt.Errorf("%s: writeonly: expected `<pkg>.<Type>.<field> by <function>...`: %q", path, l)
			}
			wo.Field, wo.Text = f[0], r
			for _, x := range f[2:] {
				if x = strings.TrimSuffix(x, ","); x != "" {
					wo.By[x] = true
				}
			}
			db.writeonly = append(db.writeonly, wo)
		case "axiom":
			db.scan = append(db.scan, "axiom "+rest)
		default:
			if cur == nil {
				return fmt.Errorf("%s: clause outside contract: %q", path, l)
			}
			// optional tag list: ensures[C01,C02] expr
			var ctags []string
			if strings.HasPrefix(rest, "[") {
				j := strings.Index(rest, "]")
				ctags = strings.Split(rest[1:j], ",")
				rest = strings.TrimSpace(rest[j+1:])
			}
			switch w {
			case "requires", "ensures", "invariant", "exit", "entry":
				ex, err := parseSpecExpr(rest)
				if err != nil {
					return fmt.Errorf("%s: %s: %v", path, cur.Name, err)
				}
				c := &Clause{Kind: w, Text: rest, Expr: ex, Tags: ctags}
				switch w {
				case "requires":
					cur.Requires = append(cur.Requires, c)
				case "ensures":
					cur.Ensures = append(cur.Ensures, c)
				case "exit":
					cur.Exits = append(cur.Exits, c)
				case "entry":
					cur.Entry = append(cur.Entry, c)
				case "invariant":
					if curLoop == nil {
						return fmt.Errorf("%s: invariant outside loop in %s", path, cur.Name)
					}
					curLoop.Invs = append(curLoop.Invs, c)
				}
			case "sets":
				sc, err := parseSets(rest)
				if err != nil {
					return fmt.Errorf("%s: %s: %v", path, cur.Name, err)
				}
				cur.Sets = append(cur.Sets, sc)
			case "callernolocks":
				cur.NoLocks = strings.Fields(rest)
			case "panics":
				switch {
				case rest == "false" || rest == "any":
					cur.Panics = rest
				case strings.HasPrefix(rest, "false when "):
					// may panic only when the condition is false
					ex, err := parseSpecExpr(strings.TrimPrefix(rest, "false when "))
					if err != nil {
						return err
					}
					cur.Panics = "when"
					cur.PanicsWhen = &Clause{Kind: "panics", Text: rest, Expr: ex}
				default:
					return fmt.Errorf("%s: bad panics clause %q", path, rest)
				}
			case "modifies":
				if curLoop != nil {
					curLoop.Modifies = append(curLoop.Modifies, splitList(rest)...)
				} else {
					cur.HasModifies = true
					if rest != "nothing" {
						cur.Modifies = append(cur.Modifies, splitList(rest)...)
					}
				}
			case "inline":
				cur.Inline = true
				if rest == "literal" {
					cur.Inline = false
					cur.InlineLit = true
				}
			case "trusted":
				cur.Trusted = true
				db.scan = append(db.scan, "trusted "+cur.Name)
			case "tags":
				cur.Tags = strings.Fields(rest)
			case "safety":
				cur.SafeTags = strings.Fields(rest)
			case "shapes":
				cur.Shapes = append(cur.Shapes, rest)
			case "thread":
				cur.Thread = rest
			case "params", "results":
				ps, err := parseParams(rest)
				if err != nil {
					return err
				}
				if w == "params" {
					cur.Params = ps
				} else {
					cur.Results = ps
				}
			}
		}
	}
	return nil
}

func splitList(s string) []string {
	var out []string
	for _, f := range strings.Split(s, ",") {
		f = strings.TrimSpace(f)
		if f != "" {
			out = append(out, f)
		}
	}
	return out
}

func parseParams(s string) ([]pparam, error) {
	var ps []pparam
	for _, p := range splitTop(s, ',') {
		p = strings.TrimSpace(p)
		if p == "" {
			continue
		}
		i := strings.IndexAny(p, " \t")
		if i < 0 {
			return nil, fmt.Errorf("bad param %q", p)
		}
		te, err := parser.ParseExpr(strings.TrimSpace(p[i:]))
		if err != nil {
			return nil, fmt.Errorf("bad param type %q: %v", p, err)
		}
		ps = append(ps, pparam{Name: p[:i], Type: te})
	}
	return ps, nil
}

func splitTop(s string, sep byte) []string {
	var parts []string
	depth := 0
	last := 0
	for i := 0; i < len(s); i++ {
		switch s[i] {
		case '(', '[', '{':
			depth++
		case ')', ']', '}':
			depth--
		case sep:
			if depth == 0 {
				parts = append(parts, s[last:i])
				last = i + 1
			}
		}
	}
	return append(parts, s[last:])
}

// pure name(p T, q U) R = body
func parsePure(s string, abstract bool) (*PureFn, error) {
	i := strings.Index(s, "(")
	if i < 0 {
		return nil, fmt.Errorf("bad pure %q", s)
	}
	name := strings.TrimSpace(s[:i])
	depth := 0
	j := i
	for ; j < len(s); j++ {
		if s[j] == '(' {
			depth++
		}
		if s[j] == ')' {
			depth--
			if depth == 0 {
				break
			}
		}
	}
	ps, err := parseParams(s[i+1 : j])
	if err != nil {
		return nil, err
	}
	rest := strings.TrimSpace(s[j+1:])
	pf := &PureFn{Name: name, Params: ps, Abstract: abstract}
	resT := rest
	if !abstract {
		k := topLevelIndex(rest, " = ")
		if k < 0 {
			return nil, fmt.Errorf("pure %s: missing body", name)
		}
		resT = strings.TrimSpace(rest[:k])
		body, err := parseSpecExpr(rest[k+3:])
		if err != nil {
			return nil, err
		}
		pf.Body = body
	}
	te, err := parser.ParseExpr(resT)
	if err != nil {
		return nil, fmt.Errorf("pure %s: result type %q: %v", name, resT, err)
	}
	pf.Result = te
	return pf, nil
}

// ---- evaluation -----------------------------------------------------------------

type specVar struct {
	v Val
	t types.Type
	// lazily evaluated (e.g. locals read at the current state)
	get func(c *SpecCtx) (Val, types.Type)
}

type SpecCtx struct {
	e     *Exec
	st    *State
	heaps func(name string, s Sort) *Term
	alloc *Term
	old   *Snapshot
	vars  map[string]*specVar
	pkg   *types.Package
	depth int
	fr    *Frame
	preds map[string]string // predicate name -> symbol being defined (recursive occurrences)
	oldHeaps heapFn          // recording wrapper around old.heap (predicates)
}

func (c *SpecCtx) withVars(vs map[string]*specVar) *SpecCtx {
	n := *c
	n.vars = map[string]*specVar{}
	for k, v := range c.vars {
		n.vars[k] = v
	}
	for k, v := range vs {
		n.vars[k] = v
	}
	return &n
}

func (c *SpecCtx) inOld() *SpecCtx {
	n := *c
	if c.old != nil {
		o := c.old
		n.heaps = o.heap
		if c.oldHeaps != nil {
			n.heaps = c.oldHeaps
		}
		n.alloc = o.alloc
	}
	// locals are not rewound: old() over parameters and heap only
	return &n
}

type specErr struct{ msg string }

func sperr(f string, a ...interface{}) specErr { return specErr{fmt.Sprintf(f, a...)} }

func (e *Exec) newSpecCtx(st *State, pkg *types.Package, old *Snapshot) *SpecCtx {
	c := &SpecCtx{e: e, st: st, old: old, vars: map[string]*specVar{}, pkg: pkg, alloc: st.alloc}
	c.heaps = st.heap
	return c
}

func (c *SpecCtx) evalBool(ex ast.Expr) *Term {
	v, _ := c.eval(ex)
	t, ok := v.(*Term)
	if !ok || t.S != SBool {
		panic(sperr("expected boolean spec expression: %s", exprStr(ex)))
	}
	return t
}

func exprStr(ex ast.Expr) string {
	var sb strings.Builder
	writeExpr(&sb, ex)
	return sb.String()
}

func writeExpr(sb *strings.Builder, ex ast.Expr) {
	switch x := ex.(type) {
	case *ast.Ident:
		sb.WriteString(x.Name)
	case *ast.SelectorExpr:
		writeExpr(sb, x.X)
		sb.WriteString("." + x.Sel.Name)
	case *ast.CallExpr:
		writeExpr(sb, x.Fun)
		sb.WriteString("(")
		for i, a := range x.Args {
			if i > 0 {
				sb.WriteString(", ")
			}
			writeExpr(sb, a)
		}
		sb.WriteString(")")
	case *ast.BasicLit:
		sb.WriteString(x.Value)
	case *ast.BinaryExpr:
		writeExpr(sb, x.X)
		sb.WriteString(" " + x.Op.String() + " ")
		writeExpr(sb, x.Y)
	case *ast.ParenExpr:
		sb.WriteString("(")
		writeExpr(sb, x.X)
		sb.WriteString(")")
	case *ast.IndexExpr:
		writeExpr(sb, x.X)
		sb.WriteString("[")
		writeExpr(sb, x.Index)
		sb.WriteString("]")
	case *ast.StarExpr:
		sb.WriteString("*")
		writeExpr(sb, x.X)
	case *ast.UnaryExpr:
		sb.WriteString(x.Op.String())
		writeExpr(sb, x.X)
	default:
		fmt.Fprintf(sb, "<%T>", ex)
	}
}

var tInt = types.Typ[types.Int]
var tBool = types.Typ[types.Bool]
var tString = types.Typ[types.String]

func (c *SpecCtx) findImport(name string) *types.Package {
	var found *types.Package
	seen := map[*types.Package]bool{}
	var walk func(p *types.Package, d int)
	walk = func(p *types.Package, d int) {
		if seen[p] || found != nil || d > 2 {
			return
		}
		seen[p] = true
		for _, im := range p.Imports() {
			if im.Name() == name {
				found = im
				return
			}
		}
		for _, im := range p.Imports() {
			if ownPkg(im) {
				walk(im, d+1)
			}
		}
	}
	if c.pkg.Name() == name {
		return c.pkg
	}
	walk(c.pkg, 0)
	return found
}

func (c *SpecCtx) resolveType(ex ast.Expr) types.Type {
	switch x := ex.(type) {
	case *ast.Ident:
		if o := c.pkg.Scope().Lookup(x.Name); o != nil {
			if tn, ok := o.(*types.TypeName); ok {
				return tn.Type()
			}
		}
		if o := types.Universe.Lookup(x.Name); o != nil {
			if tn, ok := o.(*types.TypeName); ok {
				return tn.Type()
			}
		}
	case *ast.StarExpr:
		if t := c.resolveType(x.X); t != nil {
			return types.NewPointer(t)
		}
	case *ast.ParenExpr:
		return c.resolveType(x.X)
	case *ast.ArrayType:
		if x.Len == nil {
			if t := c.resolveType(x.Elt); t != nil {
				return types.NewSlice(t)
			}
		}
	case *ast.SelectorExpr:
		if id, ok := x.X.(*ast.Ident); ok {
			if p := c.findImport(id.Name); p != nil {
				if o := p.Scope().Lookup(x.Sel.Name); o != nil {
					if tn, ok := o.(*types.TypeName); ok {
						return tn.Type()
					}
				}
			}
		}
	case *ast.InterfaceType:
		return types.NewInterfaceType(nil, nil)
	case *ast.MapType:
		k, v := c.resolveType(x.Key), c.resolveType(x.Value)
		if k != nil && v != nil {
			return types.NewMap(k, v)
		}
	}
	return nil
}

func constToVal(cv constant.Value, t types.Type) Val {
	switch cv.Kind() {
	case constant.Bool:
		return BoolLit(constant.BoolVal(cv))
	case constant.String:
		return strLit(constant.StringVal(cv))
	case constant.Int:
		n, _ := new(big.Int).SetString(cv.ExactString(), 10)
		return BigLit(n)
	}
	panic(sperr("unsupported constant kind"))
}

func (c *SpecCtx) lookupObj(o types.Object) (Val, types.Type) {
	switch x := o.(type) {
	case *types.Const:
		return constToVal(x.Val(), x.Type()), x.Type()
	case *types.Var:
		// package-level variable
		if x.Pkg() != nil {
			if sp := c.e.P.prog.Package(x.Pkg()); sp != nil {
				if g, ok := sp.Members[x.Name()].(*ssa.Global); ok {
					return c.loadAt(globalRef(g), x.Type()), x.Type()
				}
			}
		}
	case *types.Nil:
		return nil, types.Typ[types.UntypedNil]
	}
	panic(sperr("cannot use %v in a spec expression", o))
}

// loadAt reads memory at the spec context's heap version
func (c *SpecCtx) loadAt(addr Val, t types.Type) Val {
	switch a := addr.(type) {
	case *LocalAddr:
		return pathGet(a.cell.v, a.path)
	case *HeapAddr:
		r := Select(c.heaps(a.heap, a.sort), a.idx)
		c.wfLoaded(r, t)
		return r
	case *Term:
		switch u := under(t).(type) {
		case *types.Struct:
			sv := &StructVal{T: t, F: make([]Val, u.NumFields())}
			for i := 0; i < u.NumFields(); i++ {
				sv.F[i] = c.loadAt(c.e.fieldAddr(a, t, i), u.Field(i).Type())
			}
			return sv
		case *types.Array:
			av := &ArrayVal{T: t, E: make([]Val, u.Len())}
			for i := range av.E {
				av.E[i] = c.loadAt(El(a, IntLit(int64(i))), u.Elem())
			}
			return av
		}
		h, s := cellHeap(t)
		r := Select(c.heaps(h, s), a)
		c.wfLoaded(r, t)
		return r
	}
	panic(sperr("loadAt %T", addr))
}

// wfLoaded: a slice read by a specification satisfies the type's invariant
// (0 <= len <= cap, ...) in whatever heap it is read from, exactly as one read
// by the code does
func (c *SpecCtx) wfLoaded(r *Term, t types.Type) {
	if c.st == nil || r.S != SSlice || hasBound(r) {
		return
	}
	c.e.assumeWf(c.st, r, t)
}

func isNilType(t types.Type) bool {
	b, ok := t.(*types.Basic)
	return ok && b.Kind() == types.UntypedNil
}

func (c *SpecCtx) eval(ex ast.Expr) (Val, types.Type) {
	switch x := ex.(type) {
	case *ast.ParenExpr:
		return c.eval(x.X)
	case *ast.BasicLit:
		switch x.Kind {
		case token.INT:
			n, ok := new(big.Int).SetString(x.Value, 0)
			if !ok {
				panic(sperr("bad int %s", x.Value))
			}
			return BigLit(n), types.Typ[types.UntypedInt]
		case token.STRING:
			s, _ := strconv.Unquote(x.Value)
			return strLit(s), tString
		case token.CHAR:
			s, _ := strconv.Unquote(x.Value)
			return IntLit(int64(s[0])), types.Typ[types.UntypedRune]
		}
	case *ast.Ident:
		switch x.Name {
		case "true":
			return TTrue, tBool
		case "false":
			return TFalse, tBool
		case "nil":
			return nil, types.Typ[types.UntypedNil]
		}
		if v, ok := c.vars[x.Name]; ok {
			if v.get != nil {
				return v.get(c)
			}
			return v.v, v.t
		}
		if strings.HasPrefix(x.Name, "G_") {
			return c.ghostGlobal(x.Name[2:]), tInt
		}
		if o := c.pkg.Scope().Lookup(x.Name); o != nil {
			return c.lookupObj(o)
		}
		panic(sperr("unknown identifier %s", x.Name))
	case *ast.UnaryExpr:
		v, t := c.eval(x.X)
		switch x.Op {
		case token.NOT:
			return Not(v.(*Term)), tBool
		case token.SUB:
			return Neg(v.(*Term)), t
		case token.AND:
			// &x.f : address (only for sync objects)
			return c.addrOf(x.X)
		}
	case *ast.StarExpr:
		v, t := c.eval(x.X)
		pt, ok := under(t).(*types.Pointer)
		if !ok {
			panic(sperr("deref of non-pointer %s", exprStr(x.X)))
		}
		return c.loadAt(v, pt.Elem()), pt.Elem()
	case *ast.BinaryExpr:
		return c.evalBinary(x)
	case *ast.SelectorExpr:
		return c.evalSelector(x)
	case *ast.IndexExpr:
		return c.evalIndex(x)
	case *ast.CallExpr:
		return c.evalCall(x)
	case *ast.TypeAssertExpr:
		v, _ := c.eval(x.X)
		t := c.resolveType(x.Type)
		if t == nil {
			panic(sperr("unknown type %s", exprStr(x.Type)))
		}
		return c.payload(v.(*Term), t), t
	case *ast.SliceExpr:
		v, t := c.eval(x.X)
		s := v.(*Term)
		lo := IntLit(0)
		if x.Low != nil {
			l, _ := c.eval(x.Low)
			lo = l.(*Term)
		}
		if s.S == SStr {
			hi := SLen(s)
			if x.High != nil {
				h, _ := c.eval(x.High)
				hi = h.(*Term)
			}
			return c.e.strSub(s, lo, hi), t
		}
		hi := SlLen(s)
		if x.High != nil {
			h, _ := c.eval(x.High)
			hi = h.(*Term)
		}
		return MkSlice(SlArr(s), Add(SlOff(s), lo), Sub(hi, lo), Sub(SlCap(s), lo)), t
	}
	panic(sperr("unsupported spec expression %s (%T)", exprStr(ex), ex))
}

func (c *SpecCtx) payload(x *Term, t types.Type) Val {
	switch under(t).(type) {
	case *types.Basic:
		switch sortOf(t) {
		case SInt:
			return IfInt(x)
		case SBool:
			return IfBool(x)
		case SStr:
			return IfStr(x)
		}
	case *types.Struct, *types.Array, *types.Slice:
		return c.loadAt(IfRef(x), t)
	case *types.Interface:
		return x
	}
	return IfRef(x)
}

func (c *SpecCtx) addrOf(ex ast.Expr) (Val, types.Type) {
	sel, ok := ex.(*ast.SelectorExpr)
	if !ok {
		panic(sperr("& of %s", exprStr(ex)))
	}
	v, t := c.eval(sel.X)
	pt, ok := under(t).(*types.Pointer)
	var stt types.Type
	if ok {
		stt = pt.Elem()
	} else {
		panic(sperr("& of field of non-pointer"))
	}
	s := under(stt).(*types.Struct)
	for i := 0; i < s.NumFields(); i++ {
		if s.Field(i).Name() == sel.Sel.Name {
			a := c.e.fieldAddr(v, stt, i)
			return a, types.NewPointer(s.Field(i).Type())
		}
	}
	panic(sperr("no field %s", sel.Sel.Name))
}

func (c *SpecCtx) ghostHeap(name string) (string, Sort) {
	s, ok := c.e.db.ghosts[name]
	if !ok {
		panic(sperr("undeclared ghost %s", name))
	}
	return "G!" + name, s
}

func (c *SpecCtx) ghostGlobal(name string) *Term {
	h, s := c.ghostHeap(name)
	if s.IsArr() {
		return c.heaps(h, s)
	}
	// scalar ghost global lives at index 0 of an array
	return Select(c.heaps(h, ArrSort(s)), IntLit(0))
}

func (c *SpecCtx) evalSelector(x *ast.SelectorExpr) (Val, types.Type) {
	// qualified identifier?
	if id, ok := x.X.(*ast.Ident); ok {
		if _, isVar := c.vars[id.Name]; !isVar && c.pkg.Scope().Lookup(id.Name) == nil {
			if p := c.findImport(id.Name); p != nil {
				o := p.Scope().Lookup(x.Sel.Name)
				if o == nil {
					panic(sperr("unknown %s.%s", id.Name, x.Sel.Name))
				}
				return c.lookupObj(o)
			}
		}
	}
	v, t := c.eval(x.X)
	name := x.Sel.Name
	if strings.HasPrefix(name, "G_") {
		h, s := c.ghostHeap(name[2:])
		if !s.IsArr() {
			s = ArrSort(s)
		}
		gt := types.Type(tInt)
		if s.Elem() == SBool {
			gt = tBool
		}
		return Select(c.heaps(h, s), c.e.term(v)), gt
	}
	return c.fieldOf(v, t, name, x)
}

func (c *SpecCtx) fieldOf(v Val, t types.Type, name string, x ast.Expr) (Val, types.Type) {
	if sv, ok := v.(*StructVal); ok {
		s := under(sv.T).(*types.Struct)
		for i := 0; i < s.NumFields(); i++ {
			if s.Field(i).Name() == name {
				return sv.F[i], s.Field(i).Type()
			}
		}
		// promoted through embedded fields
		for i := 0; i < s.NumFields(); i++ {
			if s.Field(i).Embedded() {
				if r, rt, ok := c.tryField(sv.F[i], s.Field(i).Type(), name); ok {
					return r, rt
				}
			}
		}
		panic(sperr("no field %s in %s", name, sv.T))
	}
	if r, rt, ok := c.tryField(v, t, name); ok {
		return r, rt
	}
	panic(sperr("cannot select %s from %s (type %v)", name, exprStr(x), t))
}

func (c *SpecCtx) tryField(v Val, t types.Type, name string) (Val, types.Type, bool) {
	if sv, ok := v.(*StructVal); ok {
		s := under(sv.T).(*types.Struct)
		for i := 0; i < s.NumFields(); i++ {
			if s.Field(i).Name() == name {
				return sv.F[i], s.Field(i).Type(), true
			}
		}
		for i := 0; i < s.NumFields(); i++ {
			if s.Field(i).Embedded() {
				if r, rt, ok := c.tryField(sv.F[i], s.Field(i).Type(), name); ok {
					return r, rt, true
				}
			}
		}
		return nil, nil, false
	}
	pt, ok := under(t).(*types.Pointer)
	if !ok {
		return nil, nil, false
	}
	stt := pt.Elem()
	s, ok := under(stt).(*types.Struct)
	if !ok {
		return nil, nil, false
	}
	for i := 0; i < s.NumFields(); i++ {
		if s.Field(i).Name() == name {
			a := c.e.fieldAddr(v, stt, i)
			ft := s.Field(i).Type()
			if isComposite(ft) {
				// nested struct: keep as pointer-like ref with struct type, loaded lazily
				return c.loadAt(a, ft), ft, true
			}
			return c.loadAt(a, ft), ft, true
		}
	}
	for i := 0; i < s.NumFields(); i++ {
		if s.Field(i).Embedded() {
			ft := s.Field(i).Type()
			a := c.e.fieldAddr(v, stt, i)
			var inner Val
			var it types.Type
			if isComposite(ft) {
				inner, it = a, types.NewPointer(ft) // address of embedded struct
			} else {
				inner, it = c.loadAt(a, ft), ft // embedded pointer
			}
			if r, rt, ok := c.tryField(inner, it, name); ok {
				return r, rt, true
			}
		}
	}
	return nil, nil, false
}

func (c *SpecCtx) evalIndex(x *ast.IndexExpr) (Val, types.Type) {
	if id, ok := x.X.(*ast.Ident); ok && strings.HasPrefix(id.Name, "G_") {
		if _, isVar := c.vars[id.Name]; !isVar {
			h, srt := c.ghostHeap(id.Name[2:])
			if !srt.IsArr() {
				srt = ArrSort(srt)
			}
			iv, _ := c.eval(x.Index)
			gt := types.Type(tInt)
			switch srt.Elem() {
			case SBool:
				gt = tBool
			case SStr:
				gt = tString
			case SIface:
				gt = types.NewInterfaceType(nil, nil)
			}
			return Select(c.heaps(h, srt), c.e.term(iv)), gt
		}
	}
	v, t := c.eval(x.X)
	iv, _ := c.eval(x.Index)
	switch u := under(t).(type) {
	case *types.Slice:
		s := v.(*Term)
		ref := elemRef(s, iv.(*Term))
		return c.loadAt(ref, u.Elem()), u.Elem()
	case *types.Basic:
		return App("s_at", SInt, v.(*Term), iv.(*Term)), types.Typ[types.Uint8]
	case *types.Map:
		return c.e.mapGet(c.heaps, v.(*Term), u, c.e.term(iv)), u.Elem()
	case *types.Array:
		if av, ok := v.(*ArrayVal); ok {
			i := iv.(*Term)
			if i.IsLit() {
				return av.E[i.LitVal().Int64()], u.Elem()
			}
		}
	}
	if tm, ok := v.(*Term); ok && tm.S.IsArr() {
		// ghost array
		gt := types.Type(tInt)
		if tm.S.Elem() == SBool {
			gt = tBool
		}
		return Select(tm, iv.(*Term)), gt
	}
	panic(sperr("cannot index %s", exprStr(x.X)))
}

func (c *SpecCtx) coerceNil(v Val, t types.Type, other types.Type) Val {
	if v == nil && isNilType(t) {
		return zeroTerm(sortOf(other))
	}
	return v
}

func (c *SpecCtx) evalBinary(x *ast.BinaryExpr) (Val, types.Type) {
	switch x.Op {
	case token.LAND:
		return And(c.evalBool(x.X), c.evalBool(x.Y)), tBool
	case token.LOR:
		return Or(c.evalBool(x.X), c.evalBool(x.Y)), tBool
	}
	a, ta := c.eval(x.X)
	b, tb := c.eval(x.Y)
	a = c.coerceNil(a, ta, tb)
	b = c.coerceNil(b, tb, ta)
	rt := ta
	if isNilType(ta) || isUntyped(ta) {
		rt = tb
	}
	if sa, ok := a.(*StructVal); ok {
		sb := b.(*StructVal)
		var cs []*Term
		for k := range sa.F {
			cs = append(cs, Eq(c.e.term(sa.F[k]), c.e.term(sb.F[k])))
		}
		r := And(cs...)
		if x.Op == token.NEQ {
			r = Not(r)
		}
		return r, tBool
	}
	p, q := c.e.term(a), c.e.term(b)
	switch x.Op {
	case token.EQL:
		return Eq(p, q), tBool
	case token.NEQ:
		return Neq(p, q), tBool
	case token.LSS:
		return Lt(p, q), tBool
	case token.LEQ:
		return Le(p, q), tBool
	case token.GTR:
		return Gt(p, q), tBool
	case token.GEQ:
		return Ge(p, q), tBool
	case token.ADD:
		if p.S == SStr {
			return c.e.strCat(p, q), rt
		}
		return Add(p, q), rt
	case token.SUB:
		return Sub(p, q), rt
	case token.MUL:
		return Mul(p, q), rt
	case token.QUO:
		return Div(p, q), rt
	case token.REM:
		return Mod(p, q), rt
	}
	panic(sperr("unsupported operator %s", x.Op))
}

func isUntyped(t types.Type) bool {
	b, ok := t.(*types.Basic)
	return ok && b.Info()&types.IsUntyped != 0
}

func (c *SpecCtx) evalCall(x *ast.CallExpr) (Val, types.Type) {
	fname := ""
	switch f := x.Fun.(type) {
	case *ast.Ident:
		fname = f.Name
	case *ast.ParenExpr, *ast.StarExpr, *ast.SelectorExpr, *ast.ArrayType:
	}
	// type conversion?
	if t := c.resolveType(x.Fun); t != nil && len(x.Args) == 1 {
		if _, isPure := c.e.db.pures[fname]; !isPure {
			v, vt := c.eval(x.Args[0])
			if lo, hi, bits, signed, ok := intRange(t); ok {
				if _, _, _, _, ok2 := intRange(vt); ok2 || isUntyped(vt) {
					return wrapTo(c.e.term(v), lo, hi, bits, signed), t
				}
			}
			if v == nil {
				return zeroTerm(sortOf(t)), t
			}
			if sortOf(t) == SStr && sortOf(vt) == SSlice {
				return c.bytesStr(v.(*Term), vt), t
			}
			return v, t
		}
	}
	if pf, ok := c.e.db.pures[fname]; ok {
		return c.callPure(pf, x.Args)
	}
	switch fname {
	case "implies__":
		return Implies(c.evalBool(x.Args[0]), c.evalBool(x.Args[1])), tBool
	case "old":
		return c.inOld().eval(x.Args[0])
	case "strless":
		// strless(a, b): a sorts strictly before b (the order sort.Strings uses; uninterpreted)
		a, _ := c.eval(x.Args[0])
		b, _ := c.eval(x.Args[1])
		declFun("s_lt", SBool, SStr, SStr)
		return App("s_lt", SBool, a.(*Term), b.(*Term)), tBool
	case "sprintf":
		var ts []*Term
		for _, a := range x.Args {
			v, _ := c.eval(a)
			t, ok := v.(*Term)
			if !ok || t.S != SStr {
				panic(sperr("sprintf: string arguments only"))
			}
			ts = append(ts, t)
		}
		return sprintfApp(ts), types.Typ[types.String]
	case "len":
		v, t := c.eval(x.Args[0])
		switch under(t).(type) {
		case *types.Slice:
			return SlLen(v.(*Term)), tInt
		case *types.Basic:
			return SLen(v.(*Term)), tInt
		case *types.Map:
			return c.e.mapLen(c.heaps, v.(*Term)), tInt
		case *types.Array:
			return IntLit(under(t).(*types.Array).Len()), tInt
		}
		panic(sperr("len of %v", t))
	case "cap":
		v, _ := c.eval(x.Args[0])
		return SlCap(v.(*Term)), tInt
	case "forall", "exists", "forallt":
		id := x.Args[0].(*ast.Ident)
		bv := BoundVar(id.Name, SInt)
		lo, _ := c.eval(x.Args[1])
		hi, _ := c.eval(x.Args[2])
		c2 := c.withVars(map[string]*specVar{id.Name: {v: bv, t: tInt}})
		body := c2.evalBool(x.Args[3])
		rng := And(Le(lo.(*Term), bv), Lt(bv, hi.(*Term)))
		if fname == "forallt" {
			// explicit trigger term(s)
			var pats [][]*Term
			for _, pa := range x.Args[4:] {
				pv, _ := c2.eval(pa)
				pats = append(pats, []*Term{c.e.term(pv)})
			}
			return Forall([]*Term{bv}, Implies(rng, body), pats...), tBool
		}
		if fname == "forall" {
			if os.Getenv("GOVC_ELPAT") != "" {
				return Forall([]*Term{bv}, Implies(rng, body), elPatterns(body, bv)...), tBool
			}
			return Forall([]*Term{bv}, Implies(rng, body)), tBool
		}
		return Exists([]*Term{bv}, And(rng, body)), tBool
	case "forallref":
		// forallref(q, body): q ranges over all references
		id := x.Args[0].(*ast.Ident)
		t := c.resolveType(x.Args[1])
		bv := BoundVar(id.Name, SInt)
		c2 := c.withVars(map[string]*specVar{id.Name: {v: bv, t: t}})
		return Forall([]*Term{bv}, c2.evalBool(x.Args[2])), tBool
	case "cond":
		cnd := c.evalBool(x.Args[0])
		a, ta := c.eval(x.Args[1])
		b, tb := c.eval(x.Args[2])
		a = c.coerceNil(a, ta, tb)
		b = c.coerceNil(b, tb, ta)
		if isNilType(ta) || isUntyped(ta) {
			ta = tb
		}
		return c.e.iteVal(cnd, a, b), ta
	case "typeIs":
		v, _ := c.eval(x.Args[0])
		t := c.resolveType(x.Args[1])
		if t == nil {
			panic(sperr("unknown type %s", exprStr(x.Args[1])))
		}
		return Eq(IfTid(v.(*Term)), IntLit(int64(tidOf(t)))), tBool
	case "isNilIface":
		v, _ := c.eval(x.Args[0])
		return Eq(IfTid(v.(*Term)), IntLit(0)), tBool
	case "implements":
		// implements(x, T): the dynamic type of the interface value x implements the interface type T
		v, _ := c.eval(x.Args[0])
		t := c.resolveType(x.Args[1])
		if t == nil {
			panic(sperr("unknown type %s", exprStr(x.Args[1])))
		}
		it, ok := under(t).(*types.Interface)
		if !ok {
			panic(sperr("implements: %s is not an interface type", exprStr(x.Args[1])))
		}
		return c.e.implementsTerm(v.(*Term), it, t.String()), tBool
	case "allocated":
		v, t := c.eval(x.Args[0])
		r := v.(*Term)
		if _, ok := under(t).(*types.Slice); ok {
			r = SlArr(r)
		}
		return Allocd(c.alloc, r), tBool
	case "fresh":
		// fresh(x): x was not allocated in the old state
		v, t := c.eval(x.Args[0])
		r := v.(*Term)
		if _, ok := under(t).(*types.Slice); ok {
			r = SlArr(r)
		}
		if c.old == nil {
			panic(sperr("fresh() outside a post-condition"))
		}
		return And(Not(Allocd(c.old.alloc, r)), Allocd(c.alloc, r), Eq(App("rkind", SInt, r), IntLit(0)), Gt(r, IntLit(0))), tBool
	case "arrOf":
		v, _ := c.eval(x.Args[0])
		return SlArr(v.(*Term)), tInt
	case "iref":
		v, _ := c.eval(x.Args[0])
		return IfRef(v.(*Term)), tInt
	case "unchangedExcept":
		// unchangedExcept("heap designator", ref): pre-existing objects other than the one
		// ref points to keep their contents
		lit, isLit := x.Args[0].(*ast.BasicLit)
		if !isLit || c.old == nil {
			panic(sperr("unchangedExcept(\"heaps\", ref) in a post-state"))
		}
		d, _ := strconv.Unquote(lit.Value)
		rv, _ := c.eval(x.Args[1])
		ref := c.e.term(rv)
		if ref.S == SIface {
			ref = IfRef(ref)
		}
		var cs []*Term
		for _, part := range splitList(d) {
			hm := map[string]Sort{}
			c.e.addNamedHeap(part, &SpecCtx{e: c.e, pkg: c.pkg}, hm)
			var names []string
			for k := range hm {
				names = append(names, k)
			}
			sortStrings(names)
			for _, h := range names {
				srt := hm[h]
				y := BoundVar("y", SInt)
				oldH := c.old.heap(h, srt)
				if c.oldHeaps != nil {
					oldH = c.oldHeaps(h, srt)
				}
				cur := c.heaps(h, srt)
				if strings.HasPrefix(h, "G!") {
					// a ghost map is total: every index other than ref keeps its value
					cs = append(cs, Forall([]*Term{y}, Implies(Neq(y, ref), Eq(Select(cur, y), Select(oldH, y))), []*Term{Select(cur, y)}))
					continue
				}
				cs = append(cs, Forall([]*Term{y}, Implies(And(Allocd(c.old.alloc, y), Neq(App("rroot", SInt, y), App("rroot", SInt, ref))), Eq(Select(cur, y), Select(oldH, y))), []*Term{Select(cur, y)}))
			}
		}
		return And(cs...), tBool
	case "unchanged":
		if lit, isLit := x.Args[0].(*ast.BasicLit); isLit && lit.Kind == token.STRING {
			// unchanged("heap designator"): objects that existed before keep their contents
			if c.old == nil {
				panic(sperr("unchanged() needs a post-state"))
			}
			d, _ := strconv.Unquote(lit.Value)
			hm := map[string]Sort{}
			c.e.addNamedHeap(d, &SpecCtx{e: c.e, pkg: c.pkg}, hm)
			var names []string
			for k := range hm {
				names = append(names, k)
			}
			sortStrings(names)
			var cs []*Term
			for _, h := range names {
				srt := hm[h]
				y := BoundVar("y", SInt)
				oldH := c.old.heap(h, srt)
				if c.oldHeaps != nil {
					oldH = c.oldHeaps(h, srt)
				}
				cur := c.heaps(h, srt)
				cs = append(cs, Forall([]*Term{y}, Implies(Allocd(c.old.alloc, y), Eq(Select(cur, y), Select(oldH, y))), []*Term{Select(cur, y)}))
			}
			return And(cs...), tBool
		}
		// unchanged(G_name): the ghost keeps its value on everything that existed before
		id, ok := x.Args[0].(*ast.Ident)
		if !ok || !strings.HasPrefix(id.Name, "G_") || c.old == nil {
			panic(sperr("unchanged(G_name) needs a ghost and a post-state"))
		}
		h, srt := c.ghostHeap(id.Name[2:])
		if !srt.IsArr() {
			srt = ArrSort(srt)
		}
		y := BoundVar("y", SInt)
		oldH := c.old.heap(h, srt)
		if c.oldHeaps != nil {
			oldH = c.oldHeaps(h, srt)
		}
		cur := c.heaps(h, srt)
		return Forall([]*Term{y}, Implies(Allocd(c.old.alloc, y), Eq(Select(cur, y), Select(oldH, y))), []*Term{Select(cur, y)}), tBool
	case "errstr":
		v, _ := c.eval(x.Args[0])
		declFun("errstr", SStr, SIface)
		return App("errstr", SStr, c.e.term(v)), tString
	case "equalfold":
		a, _ := c.eval(x.Args[0])
		b, _ := c.eval(x.Args[1])
		declFun("|u!strings.EqualFold|", SBool, SStr, SStr)
		return App("|u!strings.EqualFold|", SBool, c.e.term(a), c.e.term(b)), tBool
	case "strcontains":
		a, _ := c.eval(x.Args[0])
		b, _ := c.eval(x.Args[1])
		declFun("|u!strings.Contains|", SBool, SStr, SStr)
		return App("|u!strings.Contains|", SBool, c.e.term(a), c.e.term(b)), tBool
	case "pktbytes":
		// BER-wrapped form of packet p at the context's heap: what (*ber.Packet).Bytes returns
		v, t := c.eval(x.Args[0])
		pkt := t.Underlying().(*types.Pointer).Elem()
		tmp := &State{heaps: map[string]*Term{}, alloc: c.alloc}
		_ = tmp
		return c.pktBytes(c.e.term(v), pkt), tString
	case "bytestr":
		// bytestr(b) : string of a byte slice at the current heap
		v, t := c.eval(x.Args[0])
		return c.bytesStr(v.(*Term), t), tString
	case "held":
		// held in any mode by the current thread
		v, _ := c.eval(x.Args[0])
		return Or(Select(c.heaps("G!held", ArrSort(SBool)), c.e.term(v)), Select(c.heaps("G!rheld", ArrSort(SBool)), c.e.term(v))), tBool
	case "heldw":
		v, _ := c.eval(x.Args[0])
		return Select(c.heaps("G!held", ArrSort(SBool)), c.e.term(v)), tBool
	}
	if pf, ok := c.e.db.pures[fname]; ok {
		return c.callPure(pf, x.Args)
	}
	panic(sperr("unknown spec function %s", exprStr(x.Fun)))
}

func (c *SpecCtx) bytesStr(b *Term, t types.Type) *Term {
	et := under(t).(*types.Slice).Elem()
	h, hs := cellHeap(et)
	c.e.bytesToStr(c.st, NilSlice, t) // make sure s_ofb is declared with axioms
	return App("s_ofb", SStr, c.heaps(h, hs), SlArr(b), SlOff(b), SlLen(b))
}

func (c *SpecCtx) callPure(pf *PureFn, args []ast.Expr) (Val, types.Type) {
	if c.depth > 24 {
		panic(sperr("pure function recursion too deep: %s", pf.Name))
	}
	pc := *c
	pc.pkg = c.e.P.tpkgs[pf.Pkg]
	rt := pc.resolveType(pf.Result)
	if rt == nil {
		panic(sperr("pure %s: unknown result type %s", pf.Name, exprStr(pf.Result)))
	}
	if len(args) != len(pf.Params) {
		panic(sperr("pure %s: wrong number of arguments", pf.Name))
	}
	vs := map[string]*specVar{}
	var argTerms []*Term
	var argSorts []Sort
	for i, p := range pf.Params {
		v, vt := c.eval(args[i])
		pt := pc.resolveType(p.Type)
		if pt == nil {
			panic(sperr("pure %s: unknown parameter type %s", pf.Name, exprStr(p.Type)))
		}
		v = c.coerceNil(v, vt, pt)
		if tm, ok := v.(*Term); ok {
			v = nameGround(tm)
		}
		vs[p.Name] = &specVar{v: v, t: pt}
		if pf.Abstract {
			tm := c.e.term(v)
			argTerms = append(argTerms, tm)
			argSorts = append(argSorts, tm.S)
		}
	}
	if pf.Recursive {
		return c.callPred(pf, pc.pkg, vs), rt
	}
	if pf.Abstract {
		name := "|abs!" + pf.Name + "|"
		declFun(name, sortOf(rt), argSorts...)
		return App(name, sortOf(rt), argTerms...), rt
	}
	n := &SpecCtx{e: c.e, st: c.st, heaps: c.heaps, alloc: c.alloc, old: c.old, vars: vs, pkg: pc.pkg, depth: c.depth + 1, fr: c.fr, preds: c.preds}
	v, _ := n.eval(pf.Body)
	if tm, ok := v.(*Term); ok {
		v = nameGround(tm)
	}
	return v, rt
}

// ---- recursive predicates ----------------------------------------------------------
// A predicate is an uninterpreted symbol per heap footprint with the one-way
// unfolding axiom  forall q. P(q) ==> body(q).  Proving P(x) therefore only
// succeeds when the heaps it reads are the very ones it was assumed over.

var predCache = map[string]string{}

func (c *SpecCtx) callPred(pf *PureFn, pkg *types.Package, vs map[string]*specVar) *Term {
	var args []*Term
	var sorts []Sort
	for _, p := range pf.Params {
		t := c.e.term(vs[p.Name].v)
		args = append(args, t)
		sorts = append(sorts, t.S)
	}
	if sym, ok := c.preds[pf.Name]; ok {
		return App(sym, SBool, args...)
	}
	sym := freshName("pred." + pf.Name)
	rec := map[string]*Term{}
	base := c.heaps
	heaps2 := func(name string, s Sort) *Term {
		h := base(name, s)
		rec[name] = h
		return h
	}
	var old2 heapFn
	if c.old != nil {
		ob := c.old.heap
		if c.oldHeaps != nil {
			ob = c.oldHeaps
		}
		old2 = func(name string, s Sort) *Term {
			h := ob(name, s)
			rec["old:"+name] = h
			return h
		}
	}
	var qs []*Term
	pv := map[string]*specVar{}
	for i, p := range pf.Params {
		q := BoundVar(p.Name, sorts[i])
		qs = append(qs, q)
		pv[p.Name] = &specVar{v: q, t: vs[p.Name].t}
	}
	n := &SpecCtx{e: c.e, st: c.st, heaps: heaps2, alloc: c.alloc, old: c.old, oldHeaps: old2, pkg: pkg, depth: c.depth + 1, fr: c.fr,
		vars: pv, preds: map[string]string{pf.Name: sym}}
	for k, v := range c.preds {
		n.preds[k] = v
	}
	body := n.evalBool(pf.Body)
	var names []string
	for k := range rec {
		names = append(names, k)
	}
	sortStrings(names)
	key := pf.Name
	for _, k := range names {
		key += "|" + k + "=" + rec[k].key
	}
	if s2, ok := predCache[key]; ok {
		return App(s2, SBool, args...)
	}
	predCache[key] = sym
	declFun(sym, SBool, sorts...)
	app := App(sym, SBool, qs...)
	funAxioms[sym] = []*Term{Forall(qs, mk("=", SBool, app, body), []*Term{app})}
	predDefs[sym] = &predDef{qs: qs, body: body}
	return App(sym, SBool, args...)
}

func sortStrings(a []string) {
	for i := 1; i < len(a); i++ {
		for j := i; j > 0 && a[j] < a[j-1]; j-- {
			a[j], a[j-1] = a[j-1], a[j]
		}
	}
}

func (c *SpecCtx) pktBytes(p *Term, pkt types.Type) *Term {
	declFun("ber_tlv", SStr, SInt, SInt, SInt, SStr)
	s := under(pkt).(*types.Struct)
	var cls, typ, tag, buf *Term
	for i := 0; i < s.NumFields(); i++ {
		switch s.Field(i).Name() {
		case "Identifier":
			id := c.loadAt(c.e.fieldAddr(p, pkt, i), s.Field(i).Type()).(*StructVal)
			is := under(id.T).(*types.Struct)
			for j := 0; j < is.NumFields(); j++ {
				switch is.Field(j).Name() {
				case "ClassType":
					cls = id.F[j].(*Term)
				case "TagType":
					typ = id.F[j].(*Term)
				case "Tag":
					tag = id.F[j].(*Term)
				}
			}
		case "Data":
			buf = c.loadAt(c.e.fieldAddr(p, pkt, i), s.Field(i).Type()).(*Term)
		}
	}
	return App("ber_tlv", SStr, cls, typ, tag, Select(c.heaps("G!bufdata", ArrSort(SStr)), buf))
}

// elPatterns: triggers for a quantifier over an index variable: the element
// addresses el(a, ..v..) occurring in the body (each one an alternative).
func elPatterns(body, v *Term) [][]*Term {
	seen := map[*Term]bool{}
	var found []*Term
	contains := map[*Term]bool{}
	var has func(t *Term) bool
	has = func(t *Term) bool {
		if r, ok := contains[t]; ok {
			return r
		}
		r := t == v
		for _, a := range t.Args {
			if has(a) {
				r = true
			}
		}
		contains[t] = r
		return r
	}
	var walk func(t *Term)
	walk = func(t *Term) {
		if seen[t] || !has(t) {
			return
		}
		seen[t] = true
		if t.Op == "forall" || t.Op == "exists" {
			walk(t.Args[0])
			return
		}
		if t.Op == "el" && len(t.Args) == 2 && !has(t.Args[0]) && has(t.Args[1]) {
			// no other bound variable may occur (nested quantifiers)
			if !mentionsOtherBound(t, v) {
				found = append(found, t)
			}
			return
		}
		for _, a := range t.Args {
			walk(a)
		}
	}
	walk(body)
	var pats [][]*Term
	for _, f := range found {
		pats = append(pats, []*Term{f})
	}
	if len(pats) > 6 {
		pats = pats[:6]
	}
	return pats
}

func mentionsOtherBound(t, v *Term) bool {
	if len(t.Args) == 0 {
		return boundVars[t] && t != v
	}
	for _, a := range t.Args {
		if mentionsOtherBound(a, v) {
			return true
		}
	}
	return false
}

func parseSets(s string) (*SetClause, error) {
	sc := &SetClause{Text: s}
	if i := topLevelIndex(s, " when "); i >= 0 {
		w, err := parseSpecExpr(s[i+6:])
		if err != nil {
			return nil, err
		}
		sc.When = w
		s = s[:i]
	}
	i := topLevelIndex(s, " = ")
	if i < 0 {
		return nil, fmt.Errorf("bad sets clause %q", s)
	}
	lhs, rhs := strings.TrimSpace(s[:i]), strings.TrimSpace(s[i+3:])
	v, err := parseSpecExpr(rhs)
	if err != nil {
		return nil, err
	}
	sc.Val = v
	if j := strings.Index(lhs, "["); j > 0 {
		idx, err := parseSpecExpr(lhs[j+1 : len(lhs)-1])
		if err != nil {
			return nil, err
		}
		sc.Idx = idx
		lhs = lhs[:j]
	}
	if !strings.HasPrefix(lhs, "G_") {
		return nil, fmt.Errorf("sets: %s is not a ghost", lhs)
	}
	sc.Ghost = lhs[2:]
	return sc, nil
}

// applySets performs the ghost assignments of a contract in the given post context
func (e *Exec) applySets(st *State, c *Contract, post *SpecCtx) {
	for _, sc := range c.Sets {
		srt, ok := e.db.ghosts[sc.Ghost]
		if !ok {
			panic(sperr("sets: undeclared ghost %s", sc.Ghost))
		}
		elem := srt
		if srt.IsArr() {
			elem = srt.Elem()
		}
		idx := IntLit(0)
		if sc.Idx != nil {
			iv, _ := post.eval(sc.Idx)
			idx = e.term(iv)
		}
		vv, _ := post.eval(sc.Val)
		val := e.term(vv)
		cur := Select(st.heap("G!"+sc.Ghost, ArrSort(elem)), idx)
		if sc.When != nil {
			val = Ite(post.evalBool(sc.When), val, cur)
		}
		e.setGhost(st, sc.Ghost, elem, idx, val)
		// later reads in this context must see the update
		post.heaps = st.heap
	}
}

// predDefs: definition of each predicate symbol, for the one-level unfolding of
// assumed predicate applications (exec.go unfoldAssumed)
type predDef struct {
	qs   []*Term
	body *Term
}

var predDefs = map[string]*predDef{}
