package main

import (
	"flag"
	"fmt"
	"os"
	"sort"
	"strings"

	"golang.org/x/tools/go/ssa"
)

func init() {
	if c := os.Getenv("GOVC_CLASSES"); c != "" {
		onlyClasses = strings.Split(c, ",")
	}
	onlyProp = os.Getenv("GOVC_PROP")
}

func main() {
	if len(os.Args) < 2 {
		fmt.Fprintln(os.Stderr, "usage: govc <dump|externs|verify|check> ...")
		os.Exit(2)
	}
	switch os.Args[1] {
	case "dump":
		P, err := loadProgram("/repo")
		must(err)
		var names []string
		for n := range P.funcs {
			names = append(names, n)
		}
		sort.Strings(names)
		for _, n := range names {
			if len(os.Args) > 2 {
				if strings.Contains(n, os.Args[2]) {
					P.funcs[n].WriteTo(os.Stdout)
				}
			} else {
				fmt.Println(n)
			}
		}
	case "externs":
		P, err := loadProgram("/repo")
		must(err)
		listExterns(P)
	case "verify":
		cmdVerify(os.Args[2:])
	case "check":
		cmdCheck(os.Args[2:])
	case "worker":
		cmdWorker(os.Args[2:])
	default:
		fmt.Fprintln(os.Stderr, "unknown command")
		os.Exit(2)
	}
}

func must(err error) {
	if err != nil {
		fmt.Fprintln(os.Stderr, "govc:", err)
		os.Exit(3)
	}
}

func listExterns(P *Program) {
	seen := map[string][]string{}
	for n, f := range P.funcs {
		for _, b := range f.Blocks {
			for _, in := range b.Instrs {
				ci, ok := in.(ssa.CallInstruction)
				if !ok {
					continue
				}
				cc := ci.Common()
				if cc.IsInvoke() {
					k := "iface:" + ifaceKey(cc.Value.Type()) + "." + cc.Method.Name()
					seen[k] = append(seen[k], n)
					continue
				}
				if g := cc.StaticCallee(); g != nil {
					if g.Pkg == nil || !ownPkg(g.Pkg.Pkg) {
						if g.Pkg == nil && ownSynthetic(g) {
							continue
						}
						seen[g.String()] = append(seen[g.String()], n)
					}
				}
			}
		}
	}
	var ks []string
	for k := range seen {
		ks = append(ks, k)
	}
	sort.Strings(ks)
	for _, k := range ks {
		_, have := externs[k]
		u := seen[k]
		sort.Strings(u)
		if len(u) > 3 {
			u = append(u[:3], "...")
		}
		fmt.Printf("%-5v %s   <- %s\n", have, k, strings.Join(u, ", "))
	}
}

func loadContracts(P *Program, dir string) (*ContractDB, error) {
	db := newDB()
	for _, f := range []struct{ path, pkg string }{
		{dir + "/contracts_verif.go", pkgGldap},
		{dir + "/testdirectory/contracts_verif.go", pkgTD},
	} {
		if _, err := os.Stat(f.path); err != nil {
			continue
		}
		if err := db.loadFile(f.path, f.pkg); err != nil {
			return nil, err
		}
	}
	return db, nil
}

func cmdVerify(args []string) {
	fs := flag.NewFlagSet("verify", flag.ExitOnError)
	timeout := fs.Int("timeout", 5000, "per-obligation timeout (ms)")
	verbose := fs.Bool("v", false, "verbose")
	repo := fs.String("repo", "/repo", "repository")
	cdir := fs.String("contracts", "", "contracts dir (default: repo)")
	smtlog := fs.String("smtlog", "", "log SMT commands to file")
	replay := fs.Bool("replay", false, "extract and replay counterexamples")
	fs.Parse(args)
	if *replay {
		globalCexHook = replayHook
		replayRepo = *repo
	}
	P, err := loadProgram(*repo)
	must(err)
	if *cdir == "" {
		*cdir = *repo
	}
	db, err := loadContracts(P, *cdir)
	must(err)
	bad := 0
	for _, name := range fs.Args() {
		if strings.HasPrefix(name, "method ") || strings.HasPrefix(name, "functype ") {
			var rs []*FnResult
			if strings.HasPrefix(name, "method ") {
				rs = verifyMethodImpls(P, db, strings.TrimPrefix(name, "method "), *timeout)
			} else {
				rs = verifyFuncTypeImpls(P, db, strings.TrimPrefix(name, "functype "), *timeout)
			}
			for _, r := range rs {
				printResult(r, *verbose)
				for _, o := range r.Obligs {
					if o.Failed+o.Undec > 0 {
						bad++
					}
				}
				bad += len(r.Errors)
			}
			continue
		}
		fn := P.funcs[name]
		if fn == nil {
			fmt.Println("no such function:", name)
			bad++
			continue
		}
		c := db.funcs[name]
		if c == nil {
			c = &Contract{Name: name, Pkg: fn.Pkg.Pkg.Path(), Panics: "false", Loops: map[int]*LoopSpec{}}
		}
		r := verifyFunction(P, db, fn, c, verifyOpts{timeoutMs: *timeout, logSMT: *smtlog}, nil)
		printResult(r, *verbose)
		for _, o := range r.Obligs {
			if o.Failed+o.Undec > 0 {
				bad++
			}
		}
		bad += len(r.Errors)
	}
	if bad > 0 {
		os.Exit(1)
	}
}

func printResult(r *FnResult, verbose bool) {
	nf := 0
	for _, o := range r.Obligs {
		if o.Failed+o.Undec > 0 {
			nf++
		}
	}
	fmt.Printf("== %s%s: %d obligations, %d not discharged, %d paths (%d return, %d panic), %.2fs, %d solver checks\n", r.Fn, ifs(r.Shape != "", " ["+r.Shape+"]", ""), len(r.Obligs), nf, r.Paths, r.RetPaths, r.ExcPaths, r.Secs, r.Checks)
	if verbose {
		fmt.Printf("   solver time: %v\n", r.TimeBy)
	}
	for _, e := range r.Errors {
		fmt.Println("   ERROR:", e)
	}
	for _, o := range r.Obligs {
		if o.Failed+o.Undec > 0 {
			fmt.Printf("   FAIL %s  (inst %d, sat %d, undecided %d) %s\n", o.Name, o.Inst, o.Failed, o.Undec, o.FirstPos)
			if verbose {
				fmt.Println("      ", strings.ReplaceAll(o.Detail, "\n", "\n       "))
				if o.Cex != nil {
					fmt.Println("       CEX reproduced=", o.Cex.Reproduced, "\n", o.Cex.Text)
				}
				if d := os.Getenv("GOVC_DEBUG_DIR"); d != "" {
					os.MkdirAll(d, 0o755)
					dbgN++
					p := fmt.Sprintf("%s/%d.smt2", d, dbgN)
					os.WriteFile(p, []byte("; "+o.Name+"\n"+o.Script), 0o644)
					fmt.Println("       script:", p)
				}
			}
		} else if verbose {
			fmt.Printf("   ok   %s (inst %d) %v %.2fs\n", o.Name, o.Inst, o.By, o.Secs)
		}
	}
}

func ifs(c bool, a, b string) string {
	if c {
		return a
	}
	return b
}

type Shape struct {
	Name string
	All  []string // every option constructor named by the shapes directive
	Use  []string // the ones present in this shape, in order
}
type Cex struct {
	Text       string
	Reproduced bool
}


var dbgN int
