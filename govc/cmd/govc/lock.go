package main

import (
	"strings"

	"golang.org/x/tools/go/ssa"
)

// onLock: lock invariants (lockinv Type.field : expr over `this`) are assumed
// when the lock is acquired and must hold when it is released (CSL mutex rule;
// the soundness of the rule is trusted, its premises are checked here).
func (e *Exec) onLock(st *State, fr *Frame, site ssa.Instruction, m *Term, exclusive, acquire bool) {
	for key, inv := range e.db.lockinvs {
		// key: pkg.Type.field
		i := strings.LastIndex(key, ".")
		tname, fname := key[:i], key[i+1:]
		pkgPath := pkgGldap
		if strings.HasPrefix(tname, "testdirectory.") {
			pkgPath = pkgTD
		}
		tn := tname[strings.Index(tname, ".")+1:]
		obj := e.P.tpkgs[pkgPath].Scope().Lookup(tn)
		if obj == nil {
			panic(sperr("lockinv: unknown type %s", tname))
		}
		T := obj.Type()
		st0, ok := under(T).(*types_Struct)
		_ = st0
		_ = ok
		idx := fieldIndex(T, fname)
		if idx < 0 {
			panic(sperr("lockinv: no field %s in %s", fname, tname))
		}
		want := "|" + fieldFa(T, idx) + "|"
		if m.Op != want || len(m.Args) != 1 {
			continue
		}
		this := m.Args[0]
		ctx := e.newSpecCtx(st, e.P.tpkgs[pkgPath], st.frames[0].entry)
		ctx.vars["this"] = &specVar{v: this, t: typesPointer(T)}
		g := ctx.evalBool(inv.Expr)
		if acquire {
			e.assume(g)
		} else if exclusive {
			e.check(st, fr, "LOCK.inv", site, "lockinv "+key+": "+inv.Text+" | "+e.P.srcLine(site.Pos()), g)
		}
	}
}
