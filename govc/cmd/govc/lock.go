package main

import (
	"go/types"
	"sort"
	"strings"

	"golang.org/x/tools/go/ssa"
)

// onLock: lock invariants (lockinv Type.field : expr over `this`) are assumed
// when the lock is acquired and must hold when it is released (CSL mutex rule;
// the soundness of the rule is trusted, its premises are checked here).
func (e *Exec) onLock(st *State, fr *Frame, site ssa.Instruction, m *Term, exclusive, acquire bool) {
	// path-local list of the locks this function has acquired itself (see checkCallerNoLocks)
	if acquire {
		st.acq = append(append([]*Term(nil), st.acq...), m)
	} else {
		for i := len(st.acq) - 1; i >= 0; i-- {
			if st.acq[i].String() == m.String() {
				st.acq = append(append([]*Term(nil), st.acq[:i]...), st.acq[i+1:]...)
				break
			}
		}
	}
	if acquire && exclusive {
		// state guarded by the lock may have been changed by other threads while
		// it was free: the per-lock frame counter is unknown at acquisition and is
		// remembered in G_acq so that post-conditions can talk about "since acquire"
		if _, ok := e.db.ghosts["nframes"]; ok {
			if _, ok2 := e.db.ghosts["acq"]; ok2 {
				v := Const(freshName("nframes.acq"), SInt)
				e.assume(Ge(v, IntLit(0)))
				e.setGhost(st, "nframes", SInt, m, v)
				e.setGhost(st, "acq", SInt, m, v)
			}
		}
	}
	lkeys := make([]string, 0, len(e.db.lockinvs))
	for key := range e.db.lockinvs {
		lkeys = append(lkeys, key)
	}
	sort.Strings(lkeys)
	for _, key := range lkeys {
		inv := e.db.lockinvs[key]
		if strings.HasPrefix(key, "any") {
			// generic invariant over the mutex reference `m`
			ctx := e.newSpecCtx(st, e.P.tpkgs[pkgGldap], st.frames[0].entry)
			ctx.vars["m"] = &specVar{v: m, t: tInt}
			g := ctx.evalBool(inv.Expr)
			if acquire {
				e.assume(g)
			} else if exclusive {
				e.check(st, fr, "LOCK.inv", site, "lockinv "+key+": "+inv.Text+" | "+e.P.srcLine(site.Pos()), g)
			}
			continue
		}
		// key: pkg.Type.field
		i := strings.LastIndex(key, ".")
		tname, fname := key[:i], key[i+1:]
		pkgPath := pkgGldap
		if strings.HasPrefix(tname, "testdirectory.") {
			pkgPath = pkgTD
		}
		tn := tname[strings.Index(tname, ".")+1:]
		obj := e.P.tpkgs[pkgPath].Scope().Lookup(tn)
		if obj == nil {
			panic(sperr("lockinv: unknown type %s", tname))
		}
		T := obj.Type()
		st0, ok := under(T).(*types_Struct)
		_ = st0
		_ = ok
		idx := fieldIndex(T, fname)
		if idx < 0 {
			panic(sperr("lockinv: no field %s in %s", fname, tname))
		}
		want := "|" + fieldFa(T, idx) + "|"
		if m.Op != want || len(m.Args) != 1 {
			continue
		}
		this := m.Args[0]
		ctx := e.newSpecCtx(st, e.P.tpkgs[pkgPath], st.frames[0].entry)
		ctx.vars["this"] = &specVar{v: this, t: typesPointer(T)}
		g := ctx.evalBool(inv.Expr)
		if acquire {
			e.assume(g)
		} else if exclusive {
			e.check(st, fr, "LOCK.inv", site, "lockinv "+key+": "+inv.Text+" | "+e.P.srcLine(site.Pos()), g)
		}
	}
}

// ---- protected fields (lockset discipline, property C15) ------------------------------------

func (e *Exec) protectOf(heap string) *Protect {
	db := e.db
	if db.protectH == nil {
		db.protectH = map[string]*Protect{}
		for _, pr := range db.protectList {
			parts := strings.Split(pr.Field, ".")
			if len(parts) != 3 {
				panic(sperr("protect: bad field %s", pr.Field))
			}
			var tp *types.Package
			for _, p := range e.P.tpkgs {
				if p.Name() == parts[0] {
					tp = p
				}
			}
			if tp == nil {
				panic(sperr("protect: unknown package %s", parts[0]))
			}
			obj := tp.Scope().Lookup(parts[1])
			if obj == nil {
				panic(sperr("protect: unknown type %s", pr.Field))
			}
			st, ok := obj.Type().Underlying().(*types.Struct)
			if !ok {
				panic(sperr("protect: %s is not a struct", parts[1]))
			}
			fi, li := -1, -1
			for i := 0; i < st.NumFields(); i++ {
				if st.Field(i).Name() == parts[2] {
					fi = i
				}
				if st.Field(i).Name() == pr.Lock {
					li = i
				}
			}
			if fi < 0 || li < 0 {
				panic(sperr("protect: %s / %s: no such field", pr.Field, pr.Lock))
			}
			pr.st, pr.lockIdx = obj.Type(), li
			h, _, _ := fieldHeap(obj.Type(), fi)
			db.protectH[h] = pr
		}
	}
	return db.protectH[heap]
}

// checkProtected: PROT obligation for a load or store through a field address
func (e *Exec) checkProtected(st *State, fr *Frame, instr ssa.Instruction, addr Val, write bool) {
	a, ok := addr.(*HeapAddr)
	if !ok || len(e.db.protectList) == 0 {
		return
	}
	pr := e.protectOf(a.heap)
	if pr == nil {
		return
	}
	if !write && (pr.Unlocked[shortName(fr.fn)] || pr.Unlocked[shortName(e.top)]) {
		return // declared owner-thread read
	}
	base := a.idx
	lock := faTerm(pr.st, pr.lockIdx, base)
	held := Select(ghostBool(st, "held"), lock)
	if !write {
		held = Or(held, Select(ghostBool(st, "rheld"), lock))
	}
	// an object allocated by this function and not yet visible to other threads
	entry := st.frames[0].entry
	goal := held
	if entry != nil {
		goal = Or(Not(Allocd(entry.alloc, base)), held)
	}
	class := "PROT.read"
	if write {
		class = "PROT.write"
	}
	save := e.curTags
	e.curTags = []string{"C15"}
	e.noAssume = true
	defer func() { e.noAssume = false }()
	e.check(st, fr, class, instr, pr.Field+" accessed without "+pr.Lock+" | "+e.P.srcLine(instr.Pos()), goal)
	e.curTags = save
}

// ---- WaitGroup ordering (T-WG Add rule) -------------------------------------------------------
// `wgorder pkg.Type.field : expr`: a WaitGroup on which another thread waits.
// Every Add with a positive delta on it must satisfy expr (over `this`, the
// object holding the field): e.g. "the counter is already positive, or the lock
// under which the waiter waits is held exclusively" - otherwise the Add is not
// ordered before a concurrent Wait and the waiter may return too early.
func (e *Exec) checkWgOrder(st *State, fr *Frame, site ssa.Instruction, wg *Term, delta *Term) {
	wkeys := make([]string, 0, len(e.db.wgorders))
	for key := range e.db.wgorders {
		wkeys = append(wkeys, key)
	}
	sort.Strings(wkeys)
	for _, key := range wkeys {
		cl := e.db.wgorders[key]
		i := strings.LastIndex(key, ".")
		tname, fname := key[:i], key[i+1:]
		pkgPath := pkgGldap
		if strings.HasPrefix(tname, "testdirectory.") {
			pkgPath = pkgTD
		}
		tn := tname[strings.Index(tname, ".")+1:]
		obj := e.P.tpkgs[pkgPath].Scope().Lookup(tn)
		if obj == nil {
			panic(sperr("wgorder: unknown type %s", tname))
		}
		T := obj.Type()
		idx := fieldIndex(T, fname)
		if idx < 0 {
			panic(sperr("wgorder: no field %s in %s", fname, tname))
		}
		want := "|" + fieldFa(T, idx) + "|"
		if wg.Op != want || len(wg.Args) != 1 {
			continue
		}
		ctx := e.newSpecCtx(st, e.P.tpkgs[pkgPath], st.frames[0].entry)
		ctx.vars["this"] = &specVar{v: wg.Args[0], t: typesPointer(T)}
		g := Implies(Gt(delta, IntLit(0)), ctx.evalBool(cl.Expr))
		save := e.curTags
		e.curTags = []string{"C12", "C15"}
		e.noAssume = true
		e.check(st, fr, "WG.add", site, "wgorder "+key+": "+cl.Text+" | "+e.P.srcLine(site.Pos()), g)
		e.noAssume = false
		e.curTags = save
	}
}

// ---- call guards ------------------------------------------------------------------------------
// checkCallGuards: GUARD obligation at a call of a guarded external function
func (e *Exec) checkCallGuards(st *State, fr *Frame, site ssa.Instruction, name string) {
	for _, cg := range e.db.callguards {
		if !cg.Names[name] {
			continue
		}
		ctx := e.newSpecCtx(st, e.P.tpkgs[pkgGldap], st.frames[0].entry)
		g := ctx.evalBool(cg.Expr)
		save := e.curTags
		e.curTags = cg.Tags
		e.noAssume = true
		e.check(st, fr, "GUARD", site, "callguard "+cg.Text+" at call of "+name+" | "+e.P.srcLine(site.Pos()), g)
		e.noAssume = false
		e.curTags = save
	}
}

// checkCallerNoLocks: a user callback (functype contract with `callernolocks Cxx`) must not be
// invoked while the calling function still holds a lock it acquired itself: every other request
// that needs the lock would wait for the callback. One obligation per lock acquired on this path
// and not released by a syntactically matching unlock; the obligation itself is semantic
// (the lock is not held now), so a release through an alias still discharges it.
func (e *Exec) checkCallerNoLocks(st *State, fr *Frame, site ssa.Instruction, c *Contract) {
	if len(c.NoLocks) == 0 {
		return
	}
	save := e.curTags
	e.curTags = c.NoLocks
	e.noAssume = true
	goal := TTrue
	for _, l := range st.acq {
		goal = And(goal, Not(Select(ghostBool(st, "held"), l)), Not(Select(ghostBool(st, "rheld"), l)))
	}
	e.check(st, fr, "LOCK.callback", site, "no lock acquired by this function is held while "+c.Name+" runs | "+e.P.srcLine(site.Pos()), goal)
	e.noAssume = false
	e.curTags = save
}
