package main

import (
	"strings"

	"golang.org/x/tools/go/ssa"
)

// onLock: lock invariants (lockinv Type.field : expr over `this`) are assumed
// when the lock is acquired and must hold when it is released (CSL mutex rule;
// the soundness of the rule is trusted, its premises are checked here).
func (e *Exec) onLock(st *State, fr *Frame, site ssa.Instruction, m *Term, exclusive, acquire bool) {
	if acquire && exclusive {
		// state guarded by the lock may have been changed by other threads while
		// it was free: the per-lock frame counter is unknown at acquisition and is
		// remembered in G_acq so that post-conditions can talk about "since acquire"
		if _, ok := e.db.ghosts["nframes"]; ok {
			if _, ok2 := e.db.ghosts["acq"]; ok2 {
				v := Const(freshName("nframes.acq"), SInt)
				e.assume(Ge(v, IntLit(0)))
				e.setGhost(st, "nframes", SInt, m, v)
				e.setGhost(st, "acq", SInt, m, v)
			}
		}
	}
	for key, inv := range e.db.lockinvs {
		if strings.HasPrefix(key, "any") {
			// generic invariant over the mutex reference `m`
			ctx := e.newSpecCtx(st, e.P.tpkgs[pkgGldap], st.frames[0].entry)
			ctx.vars["m"] = &specVar{v: m, t: tInt}
			g := ctx.evalBool(inv.Expr)
			if acquire {
				e.assume(g)
			} else if exclusive {
				e.check(st, fr, "LOCK.inv", site, "lockinv "+key+": "+inv.Text+" | "+e.P.srcLine(site.Pos()), g)
			}
			continue
		}
		// key: pkg.Type.field
		i := strings.LastIndex(key, ".")
		tname, fname := key[:i], key[i+1:]
		pkgPath := pkgGldap
		if strings.HasPrefix(tname, "testdirectory.") {
			pkgPath = pkgTD
		}
		tn := tname[strings.Index(tname, ".")+1:]
		obj := e.P.tpkgs[pkgPath].Scope().Lookup(tn)
		if obj == nil {
			panic(sperr("lockinv: unknown type %s", tname))
		}
		T := obj.Type()
		st0, ok := under(T).(*types_Struct)
		_ = st0
		_ = ok
		idx := fieldIndex(T, fname)
		if idx < 0 {
			panic(sperr("lockinv: no field %s in %s", fname, tname))
		}
		want := "|" + fieldFa(T, idx) + "|"
		if m.Op != want || len(m.Args) != 1 {
			continue
		}
		this := m.Args[0]
		ctx := e.newSpecCtx(st, e.P.tpkgs[pkgPath], st.frames[0].entry)
		ctx.vars["this"] = &specVar{v: this, t: typesPointer(T)}
		g := ctx.evalBool(inv.Expr)
		if acquire {
			e.assume(g)
		} else if exclusive {
			e.check(st, fr, "LOCK.inv", site, "lockinv "+key+": "+inv.Text+" | "+e.P.srcLine(site.Pos()), g)
		}
	}
}
