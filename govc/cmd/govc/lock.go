package main

import "golang.org/x/tools/go/ssa"

// onLock: lock invariants (lockinv declarations) are assumed on acquire and
// must be re-established on release.
func (e *Exec) onLock(st *State, fr *Frame, site ssa.Instruction, m *Term, exclusive, acquire bool) {
}
