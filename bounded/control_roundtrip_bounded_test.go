package gldap

// BOUNDED stand-in (not a proof) for the part of property C14 that the contracts
// cannot reach: the encode -> bytes -> decode round trip. decodeControl re-parses
// the nested control value from bytes with the BER library, which the catalogue
// does not model, so the round trip is exercised here on boundary values of every
// numeric field and a few string shapes, through the real ber encoder/decoder.
// Bound: the value sets listed below (integer boundaries of each encoding
// length, both criticalities, empty/short/long strings and cookies).

import (
	"bytes"
	"fmt"
	"testing"

	ber "github.com/go-asn1-ber/asn1-ber"
)

func govcRoundTrip(t *testing.T, c Control) Control {
	t.Helper()
	raw := c.Encode().Bytes()
	p, err := ber.DecodePacketErr(raw)
	if err != nil {
		t.Fatalf("GOVC-BOUNDED: %T %v: the encoding is not valid BER: %v", c, c, err)
	}
	d, err := decodeControl(p)
	if err != nil {
		t.Fatalf("GOVC-BOUNDED: %T %v does not survive the round trip: decodeControl: %v", c, c, err)
	}
	return d
}

func TestGovcBoundedControlRoundTrip(t *testing.T) {
	n := 0
	ints := []uint{0, 1, 2, 127, 128, 255, 256, 32767, 32768, 65535, 65536, 8388607, 8388608, 16777215, 16777216, 2147483646, 2147483647}
	for _, v := range ints {
		c, err := NewControlBeheraPasswordPolicy(WithSecondsBeforeExpiration(v))
		if err != nil {
			t.Fatal(err)
		}
		d, ok := govcRoundTrip(t, c).(*ControlBeheraPasswordPolicy)
		if !ok || d.expire != int64(v) || d.grace != -1 || d.error != -1 {
			t.Fatalf("GOVC-BOUNDED: behera expire %d came back as %+v", v, d)
		}
		c, err = NewControlBeheraPasswordPolicy(WithGraceAuthNsRemaining(v))
		if err != nil {
			t.Fatal(err)
		}
		d, ok = govcRoundTrip(t, c).(*ControlBeheraPasswordPolicy)
		if !ok || d.grace != int64(v) || d.expire != -1 || d.error != -1 {
			t.Fatalf("GOVC-BOUNDED: behera grace %d came back as %+v", v, d)
		}
		n += 2
	}
	for code := uint(0); code <= 8; code++ {
		c, err := NewControlBeheraPasswordPolicy(WithErrorCode(code))
		if err != nil {
			t.Fatal(err)
		}
		d, ok := govcRoundTrip(t, c).(*ControlBeheraPasswordPolicy)
		if !ok || d.error != int8(code) || d.grace != -1 || d.expire != -1 {
			t.Fatalf("GOVC-BOUNDED: behera error %d came back as %+v", code, d)
		}
		n++
	}
	sizes := []uint32{0, 1, 127, 128, 255, 256, 65535, 65536, 2147483647, 2147483648, 4294967295}
	cookies := [][]byte{nil, {}, {0}, []byte("c"), bytes.Repeat([]byte{0xff, 0x00, 0x30}, 100)}
	for _, sz := range sizes {
		for _, ck := range cookies {
			c, _ := NewControlPaging(sz)
			c.SetCookie(ck)
			d, ok := govcRoundTrip(t, c).(*ControlPaging)
			if !ok || d.PagingSize != sz || !bytes.Equal(d.Cookie, ck) {
				t.Fatalf("GOVC-BOUNDED: paging size %d cookie %x came back as %+v", sz, ck, d)
			}
			n++
		}
	}
	for _, oid := range []string{"1.2.3.4.5", "2.16.840.1.113730.3.4.999", "x"} {
		for _, crit := range []bool{false, true} {
			for _, val := range []string{"", "v", "a longer control value with spaces", string(bytes.Repeat([]byte("z"), 300))} {
				c, err := NewControlString(oid, WithCriticality(crit), WithControlValue(val))
				if err != nil {
					t.Fatal(err)
				}
				d, ok := govcRoundTrip(t, c).(*ControlString)
				if !ok || d.ControlType != oid || d.Criticality != crit || d.ControlValue != val {
					t.Fatalf("GOVC-BOUNDED: generic control %q crit=%v value=%q came back as %+v", oid, crit, val, d)
				}
				n++
			}
		}
	}
	for _, crit := range []bool{false, true} {
		c, _ := NewControlManageDsaIT(WithCriticality(crit))
		d, ok := govcRoundTrip(t, c).(*ControlManageDsaIT)
		if !ok || d.Criticality != crit {
			t.Fatalf("GOVC-BOUNDED: ManageDsaIT crit=%v came back as %+v", crit, d)
		}
		n++
	}
	fmt.Printf("GOVC-BOUNDED: %d controls survive encode -> BER bytes -> decodeControl with equal fields\n", n)
}
