package testdirectory

// BOUNDED stand-in (not a proof) for assumption A-MATCH-REF of properties C19/C20:
// for a DN without the characters ( ) * | and without leading or trailing
// white space, match("(" + dn + ")", attr) is exactly strings.Contains(attr, dn).
// Together with the statement's hypothesis "entry DNs are not substrings of
// one another" this turns the uninterpreted dnMatch of the contracts into DN
// equality. Bound: every dn and attr of length <= 4 over a 9-letter alphabet
// that contains all the characters match treats specially (about 56 million
// pairs are too many: attr is enumerated up to length 4, dn up to length 3).

import (
	"fmt"
	"strings"
	"testing"
)

func TestGovcBoundedMatch(t *testing.T) {
	alpha := []byte{'a', 'b', '=', ',', ' ', '(', ')', '*', '|'}
	var gen func(n int) []string
	gen = func(n int) []string {
		if n == 0 {
			return []string{""}
		}
		var out []string
		for _, s := range gen(n - 1) {
			for _, c := range alpha {
				out = append(out, s+string(c))
			}
		}
		return out
	}
	var dns, attrs []string
	for n := 1; n <= 3; n++ {
		dns = append(dns, gen(n)...)
	}
	for n := 0; n <= 4; n++ {
		attrs = append(attrs, gen(n)...)
	}
	checked := 0
	for _, dn := range dns {
		if strings.ContainsAny(dn, "()*|") || strings.TrimSpace(dn) != dn {
			continue
		}
		for _, attr := range attrs {
			got, err := match("("+dn+")", attr)
			want := strings.Contains(attr, dn)
			checked++
			if err != nil || got != want {
				t.Fatalf("GOVC-BOUNDED: match(%q, %q) = %v, %v; reference says %v", "("+dn+")", attr, got, err, want)
			}
		}
	}
	fmt.Printf("GOVC-BOUNDED: match agrees with the reference on %d (dn, attr) pairs\n", checked)
}
