#!/bin/sh
# apply every seeded change to a scratch copy of /repo and run the property's quick check on it
# usage: seedrun.sh [ids...]   (output: one block per seed)
cd /verif
S=${VERIF_SCRATCH:-/var/tmp/govc.seedrun.$$}
seeds=${*:-$(ls seeded | grep -E '^C[0-9]+-[0-9]+$')}
for d in $seeds; do
  id=${d%%-*}
  rm -rf "$S"; mkdir -p "$S"; rsync -a --exclude .git /repo/ "$S/"
  if ! (cd "$S" && patch -p1 -s < /verif/seeded/$d/patch.diff); then echo "$d: PATCH-FAILED"; continue; fi
  out=$(bin/govc check -prop $id -tier quick -repo "$S" -no-evidence -replays /var/tmp/seed-replays/$d 2>&1 | grep -E "VIOLATION|govc: property" | cut -c1-220)
  echo "== $d"; echo "$out"
done
rm -rf "$S"
