HOOK_COMMITS = []
CLAIMED.update({})
