HOOK_COMMITS = ["74c1968", "80f8eba", "2461cc2", "e474722", "85831de"]
T = "contract-based deductive verification: weakest-precondition style symbolic execution of the go/ssa (naive form) IR of the current /repo sources against contracts in /repo/contracts_verif.go; obligations discharged by z3/cvc5"
CLAIMED.update({
 "C01": (T,
   "proof: every path of requestPacket/requestType/requestMessageID/*Parameters/decodeAttribute/newMessage/newRequest satisfies post-conditions written from RFC 4511 positions: message kind by protocolOp tag, message ID, DNs, password, scope, deref, size/time limit, types-only, filter (= go-ldap decompiler result), attribute lists, add attributes and values, modify operations/types and one element per client value, extended name, number of controls; unsupported tags and bind version != 3 yield an error; well-formed requests without controls of bind/search/add/delete/extended/unbind are accepted. For all packets in wire form (no bound on sizes or counts).",
   "trusted: go-asn1-ber reader returns packets in wire form (predicate wire in the contract file), ldap.DecompileFilter is a function of the sub-tree, fmt/strings catalogue. Not proved: contents of decoded controls (only their number) and acceptance of well-formed Modify requests / requests with controls (decodeControl mutates sibling sub-trees; no separation argument yet); modify values: count per change proved, wrapped content proved per iteration only.",
   "DESIGN.md §5 C01"),
 "C02": (T,
   "proof: zero-annotation panic-freedom sweep (nil dereference, index, slice bounds, type assertion, division, nil map, makeslice) of every function on the request decode path, for every packet tree in wire form; `panics false` on each function, callee contracts used at call sites.",
   "trusted: go-asn1-ber never returns nil children / nil Data (nonnull directives), wire predicate, catalogue. conn.readPacket/Log not yet under contract in this round; resource exhaustion and stack depth are not panics in the model.",
   "DESIGN.md §5 C02"),
})
CLAIMED.update({
 "C16": (T,
   "proof: `panics false` with no pre-condition on arguments for ConvertString, readLength, SIDBytes, SIDBytesToString, NewEntry, NewEntryAttribute, AddValue, GetAttributeValues, the New*Response constructors, the NewControl* constructors, NewMux and the eight registration methods; every With* option closure is verified against the Option function-type contract used for arbitrary option lists (so every subset and order of options is covered, not enumerated). Functional: ConvertString returns, for every X.690 definite-length wrapped string, exactly the bytes after the header (inverse of wrapping, pointwise); NewEntryAttribute/AddValue keep Values and ByteValues equal element by element; Behera constructor never yields error > 8.",
   "trusted: encoding/binary, bytes.Buffer, sort.Strings, reflect (isNil) catalogue entries; A-USER: Option values are nil or produced by gldap's With* functions; receivers satisfy reqOK (message built by the decoder). Not proved: SIDBytesToString(SIDBytes(r,a)) == \"S-r-a\" (binary layout is opaque in the catalogue) and the ordering/determinism part of NewEntry (only totality and DN).",
   "DESIGN.md §5 C16"),
})
