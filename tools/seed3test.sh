#!/bin/bash
# confirm second-round seeds (/tmp/seed3-<ID><x>) in their scratch worktrees and run the property's quick check
# on a scratch copy of /repo with the patch applied
export GOFLAGS=-mod=mod GOPROXY=off GOSUMDB=off GOTOOLCHAIN=local
for d in ${*:-/tmp/seed3-C*}; do
  name=$(basename $d | sed 's/seed3-//'); id=${name:0:3}
  wt=/tmp/wt3-$name
  [ -f $d/patch.diff ] && [ -d $wt ] || { echo "$name: missing"; continue; }
  git -C $wt checkout -q -- . ; git -C $wt clean -fdq
  pkgdir=$wt; grep -q '^package testdirectory' $d/demo_test.go && pkgdir=$wt/testdirectory
  race=""; grep -qi "race" $d/README.txt && race="-race"
  cp $d/demo_test.go $pkgdir/zz_seed_demo_test.go
  (cd $pkgdir && timeout 300 go test $race -vet=off -count=1 -run 'TestSeedDemo$' . >/tmp/seed3.log 2>&1); without=$?
  if ! git -C $wt apply $d/patch.diff 2>/tmp/seed3.err; then echo "$name APPLY-FAILED"; git -C $wt checkout -q -- .; git -C $wt clean -fdq; continue; fi
  (cd $pkgdir && timeout 300 go test $race -vet=off -count=1 -run 'TestSeedDemo$' . >/tmp/seed3.log 2>&1); with=$?
  rm -f $pkgdir/zz_seed_demo_test.go
  (cd $wt && timeout 900 go test -vet=off -count=1 ./... >/tmp/seed3.suite 2>&1); suite=$?
  git -C $wt checkout -q -- . ; git -C $wt clean -fdq
  conf="confirmed"; { [ $without -eq 0 ] && [ $with -ne 0 ] && [ $suite -eq 0 ]; } || conf="NOT-CONFIRMED(without=$without,with=$with,suite=$suite)"
  S=/var/tmp/govc.seed3.$$; rm -rf $S; mkdir -p $S; rsync -a --exclude .git /repo/ $S/
  if (cd $S && patch -p1 -s < $d/patch.diff); then
    out=$(cd /verif && timeout 1200 bin/govc check -prop $id -tier quick -repo $S -no-evidence -replays /var/tmp/seed3-replays/$name 2>&1 | grep -E "^VIOLATION|^govc:" )
    nv=$(echo "$out" | grep -c '^VIOLATION')
    det="violations=$nv $(echo "$out" | grep '^govc:' | cut -c1-140)"
  else det="patch does not apply"; fi
  rm -rf $S
  echo "$name $conf | $det"
done
