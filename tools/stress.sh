#!/bin/sh
# repeat every claimed check N times, three at a time, without writing evidence; report any alarm
n=${1:-3}
cd /verif
ids=$(python3 -c "import json;print(' '.join(c['property_id'] for c in json.load(open('MANIFEST.json'))['checks']))")
for k in $(seq 1 $n); do
  echo "$ids" | tr ' ' '\n' | xargs -P 3 -I{} sh -c 'bin/govc check -prop {} -tier quick -no-evidence 2>&1 | grep -E "VIOLATION|govc: property" | tr "\n" " "; echo'
done
