#!/usr/bin/env python3
# Generates /verif/MANIFEST.json from the table below (kept in one place so the
# claimed set and the not_applicable set always partition the 20 properties).
import json, sys, os

CLAIMED = {
 # id: (technique, level text, level note, design ref)
}
NOT_APPLICABLE = {
 "C11": "liveness (Stop returns in bounded time): partial-correctness contracts are vacuously true of a Stop that never returns; needs progress/termination reasoning this family (WP over go/ssa + SMT) does not provide. See DESIGN.md §5 C11.",
}
PENDING = "check not built yet in this round (see DESIGN.md §10 build order); not claimed until its obligations discharge on the unchanged tree"

exec(open(os.path.join(os.path.dirname(__file__), "claims.py")).read())

# hook commits: every commit in /repo whose subject starts with "verif:" (falls back to the list in claims.py)
try:
    import subprocess
    _hs = subprocess.run(["git", "-C", "/repo", "log", "--format=%h", "--grep=^verif:", "--reverse"], capture_output=True, text=True).stdout.split()
    if _hs:
        HOOK_COMMITS = _hs
except Exception:
    pass

ids = ["C%02d" % i for i in range(1, 21)]
checks = []
na = []
for i in ids:
    if i in CLAIMED:
        tech, text, note, ref = CLAIMED[i]
        checks.append({
            "property_id": i,
            "quick_cmd": "./check %s --tier quick" % i,
            "thorough_cmd": "./check %s --tier thorough" % i,
            "evidence_file": "/verif/evidence/%s.json" % i,
            "replay_cmd_template": "./check %s --replay {path}" % i,
            "engine": "govc",
            "level_claimed": {"category": "proof", "text": text, "design_ref": ref},
            "level_note": note,
            "technique": tech,
        })
    else:
        na.append({"property_id": i, "reason": NOT_APPLICABLE.get(i, PENDING)})
m = {
    "version": 1,
    "setup_cmd": "cd /verif/govc && GOFLAGS=-mod=mod GOPROXY=off GOSUMDB=off GOTOOLCHAIN=local go build -o /verif/bin/govc ./cmd/govc",
    "hooks": {
        "guard": "verif",
        "enable": "-tags verif: govc loads /repo with this tag; the two contracts_verif.go files contain comments only; verifhook_verif.go makes the scheduling hook verifYield (one call after Accept in Run, a no-op in verifhook_noverif.go otherwise) settable by tests, used by the reproduction of the C12 known finding",
        "baseline_off_cmd": "cd /repo && go test -mod=mod -vet=off -count=1 -timeout 25m ./...",
        "source_commits": HOOK_COMMITS,
        "add_only": True,
    },
    "engines": [{"name": "govc", "path": "/verif/govc", "serves_properties": sorted(CLAIMED.keys()),
                 "kind_free_text": "contract-based deductive verifier written for this task: symbolic execution of go/ssa naive form of /repo's current sources against contracts kept in /repo/contracts_verif.go (build tag verif), obligations discharged by z3 5.1.0 / z3 4.8.12 / cvc5"}],
    "checks": checks,
    "not_applicable": na,
    "notes": "All checks share one engine (govc). Each check re-loads /repo from its working tree. See DESIGN.md.",
}
json.dump(m, open("/verif/MANIFEST.json", "w"), indent=1)
print("claimed:", sorted(CLAIMED.keys()))
