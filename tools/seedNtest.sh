#!/bin/bash
# fourth and later seed rounds (ROUND=4|5): confirm /var/tmp/seed$R/<ID>/<k> in its scratch worktree /var/tmp/wt$R-<ID> (suite passes with the
# change, demo fails with it and passes without), then run the property's quick check on a scratch copy of /repo
# with the patch applied.   usage: seed4test.sh [ID/k ...]
export GOFLAGS=-mod=mod GOPROXY=off GOSUMDB=off GOTOOLCHAIN=local
R=${ROUND:-4}
cd /var/tmp/seed$R
for sk in ${*:-$(ls -d C*/[0-9]* 2>/dev/null)}; do
  d=/var/tmp/seed$R/$sk; id=${sk%%/*}; k=${sk##*/}
  wt=/var/tmp/wt$R-$id
  [ -f $d/patch.diff ] && [ -d $wt ] || { echo "$sk: missing"; continue; }
  git -C $wt checkout -q -- . ; git -C $wt clean -fdq
  pkgdir=$wt; grep -q '^package testdirectory' $d/demo_test.go && pkgdir=$wt/testdirectory
  cp $d/demo_test.go $pkgdir/zz_seed_demo_test.go
  (cd $pkgdir && timeout 300 go test -vet=off -count=1 -run 'TestSeedDemo$' . >/var/tmp/seed4.log 2>&1); without=$?
  if ! git -C $wt apply $d/patch.diff 2>/var/tmp/seed4.err; then echo "$sk APPLY-FAILED"; git -C $wt checkout -q -- .; git -C $wt clean -fdq; continue; fi
  (cd $pkgdir && timeout 300 go test -vet=off -count=1 -run 'TestSeedDemo$' . >/var/tmp/seed4.log 2>&1); with=$?
  rm -f $pkgdir/zz_seed_demo_test.go
  (cd $wt && timeout 900 go test -vet=off -count=1 ./... >/var/tmp/seed4.suite 2>&1); suite=$?
  git -C $wt checkout -q -- . ; git -C $wt clean -fdq
  conf="confirmed"; { [ $without -eq 0 ] && [ $with -ne 0 ] && [ $suite -eq 0 ]; } || conf="NOT-CONFIRMED(without=$without,with=$with,suite=$suite)"
  S=/var/tmp/govc.seed4.$$; rm -rf $S; mkdir -p $S; rsync -a --exclude .git /repo/ $S/
  if (cd $S && patch -p1 -s < $d/patch.diff); then
    out=$(cd /verif && timeout 1200 bin/govc check -prop $id -tier quick -repo $S -no-evidence -replays /var/tmp/seed$R-replays/$id-$k 2>&1 | grep -E "^VIOLATION|^govc:" )
    nv=$(echo "$out" | grep -c '^VIOLATION')
    det="violations=$nv $(echo "$out" | grep '^govc:' | cut -c1-140)"
  else det="patch does not apply to the current /repo"; fi
  rm -rf $S
  echo "$sk $conf | $det"
done
