#!/bin/sh
# run every claimed check (quick tier by default) and print one line each
tier=${1:-quick}
cd /verif
for p in $(python3 -c "import json;print(' '.join(c['property_id'] for c in json.load(open('MANIFEST.json'))['checks']))"); do
  ./check $p --tier $tier 2>&1 | tail -1
done
