#!/bin/bash
# usage: seedtest.sh <seed-dir-root>   (expects <root>/seed-<ID>/<k>/{patch.diff,demo_test.go,README.txt})
# For every seeded change: confirm it in a scratch worktree (suite passes, demo fails with / passes without),
# then apply it to /repo, run the property's quick check, and undo it.
export GOFLAGS=-mod=mod GOPROXY=off GOSUMDB=off GOTOOLCHAIN=local
root=${1:-/tmp}
out=/verif/seeded/RESULTS.txt
mkdir -p /verif/seeded; : > $out
for d in $root/seed-C*/[0-9]*; do
  id=$(basename $(dirname $d) | sed 's/seed-//'); k=$(basename $d)
  [ -f $d/patch.diff ] || continue
  wt=/tmp/wt-$id
  [ -d $wt ] || continue
  git -C $wt checkout -q -- . ; git -C $wt clean -fdq
  pkgdir=$wt; grep -q 'package testdirectory' $d/demo_test.go && pkgdir=$wt/testdirectory
  # without the change: demo passes
  cp $d/demo_test.go $pkgdir/zz_seed_demo_test.go
  (cd $pkgdir && timeout 120 go test -vet=off -count=1 -run 'TestSeedDemo$' . >/tmp/seed.log 2>&1); without=$?
  # with the change: suite passes, demo fails
  if ! git -C $wt apply $d/patch.diff 2>/tmp/seed.err; then echo "$id/$k APPLY-FAILED" | tee -a $out; git -C $wt checkout -q -- .; git -C $wt clean -fdq; continue; fi
  (cd $pkgdir && timeout 120 go test -vet=off -count=1 -run 'TestSeedDemo$' . >/tmp/seed.log 2>&1); with=$?
  rm -f $pkgdir/zz_seed_demo_test.go
  (cd $wt && timeout 300 go test -vet=off -count=1 ./... >/tmp/seed.suite 2>&1); suite=$?
  git -C $wt checkout -q -- . ; git -C $wt clean -fdq
  conf="confirmed"; { [ $without -eq 0 ] && [ $with -ne 0 ] && [ $suite -eq 0 ]; } || conf="NOT-CONFIRMED(without=$without,with=$with,suite=$suite)"
  # run our check on /repo with the change applied
  det="n/a"
  if git -C /repo apply --check $d/patch.diff 2>/dev/null; then
    git -C /repo apply $d/patch.diff
    (cd /verif && timeout 900 bin/govc check -prop $id -tier quick -no-evidence > /tmp/seed.check 2>&1); rc=$?
    git -C /repo checkout -q -- .
    nv=$(grep -c '^VIOLATION' /tmp/seed.check)
    det="exit=$rc violations=$nv first=$(grep -m1 -o 'replay=[^ ]*' /tmp/seed.check)"
    grep '^VIOLATION' /tmp/seed.check | head -3 > /verif/seeded/.last-$id-$k.txt
  else det="patch does not apply to /repo"; fi
  echo "$id/$k $conf | check: $det" | tee -a $out
done
